#!/venv/bin/python
"""Regenerates /verif/MANIFEST.json from the table below (only properties whose module exists are claimed)."""
import json
import os
import subprocess
import sys

V = os.path.dirname(os.path.dirname(os.path.abspath(__file__)))

# id -> (category, technique, level text, level note, design ref)
T = {
    'C01': ('exploration', 'differential twin executions of the real classes over recorded update/compute histories (exact-regime bit equality); megabyte batches against short ones; the array handed to the caller overwritten before the next compute()',
            'held on the generated histories: split / compute-interleaved / repeated-compute runs of every distinguisher compared with the one-batch run, plus a processed_traces shadow counter on every update',
            'trusts numpy array comparison; E-regime generator guarantees every accumulated sum is exactly representable so zero tolerance is sound; R-regime uses the forward summation bound of DESIGN 4', '5/C01'),
    'C02': ('exploration', 'event-log monitor on update() (exactly-once, in-order, own-metadata) + differential against the one-shot standalone distinguisher; containers looked at (first batch, early-left loop, indexing) before the run',
            'held on the generated (trace set, frame, chain, batch rule, class, run sequence) configurations: every batch the analysis fed to its distinguisher was logged and checked against the trace ids, and results compared bit-for-bit with the one-shot computation',
            'trusts estraces RAM reader slicing and numpy; ids carried in sample column 0 and in a metadata field make the history unambiguous', '5/C02'),
    'C03': ('exploration', 'exact rational reference (Pearson r, difference of means) on integer-valued inputs, NaN clauses decided in the exact regime and for constant words / empty bit classes under inexact integer sums; fractional (power-of-two scaled) intermediate values',
            'held on the generated inputs against python-integer/Fraction statistics with a condition-number based rounding bound; layout checked entry by entry',
            'trusts python integers/fractions; float cases judged inside the rounding envelope of DESIGN 4 only', '5/C03'),
    'C04': ('exploration', 'exact rational reference for F / NICV / SNR by value classes + superset-class metamorphic twin, both kernels forced through the hook; up to 2048 intermediate words with batches of thousands of traces',
            'held on the generated inputs against the definitions evaluated in exact arithmetic, including empty / single / one-trace classes and NaN clauses',
            'trusts python fractions; kernel forced via the SCARED_VERIF hook so that both accumulation strategies are exercised', '5/C04'),
    'C05': ('exploration', 'independent FIPS-197 reference recording every state; all stop points x key sizes x directions x broadcasting shapes x memory layouts x byte orders; read-only inputs; call histories on shared buffers with retained results re-checked; two concurrent callers; primitives on 16/32/64-bit typed states; after_step without at_round',
            'held at every (round, step, direction, key size, shape) stop point on structured and random keys/blocks; primitives exhaustively per byte',
            'trusts the independent reference (self-tested against FIPS-197 vectors and pycryptodome at start; failure = inconclusive)', '5/C05'),
    'C06': ('exploration', 'independent FIPS 46-3 reference recording every round value; all stop points x key forms x directions x shapes x memory layouts; class-level round templates digest-monitored; call histories on shared buffers with retained results re-checked; two concurrent callers',
            'held at every (des pass, round, step, direction) stop point for DES/TDES2/TDES3 master and expanded keys; primitives exhaustively',
            'trusts the independent reference (self-tested against published vectors and pycryptodome); the step map is fixed in DESIGN 5/C06', '5/C06'),
    'C07': ('exploration', 'reference-cipher oracle per guess column (a real key is constructed for every guess) + slicing twins (words / guesses in any order, as many guesses as traces) + retained-result and same-batch family histories + single calls on 1025-5000 traces judged row by row + four concurrent callers per cipher',
            'held for all ready-made selection functions of both namespaces on random keys / data, every guess column compared with a real cipher state',
            'trusts the independent references of C05/C06', '5/C07'),
    'C08': ('exploration', 'public-state recorder on process()/run() + prefix twin attacks + trace specification on convergence points; refused runs between accepted runs',
            'held on the generated (class, N, step, batch size, run sequence) configurations: every convergence column equals a fresh attack on its prefix (bit-exact regime)',
            'points are recovered from processed_traces and the number of columns observed at batch boundaries only', '5/C08'),
    'C09': ('exploration', 'exact Welch oracle + per-thread event log from an in-thread preprocess spy, delay/yield/fault injection, interleaving signatures counted; traces in 1e-9 ... 1e4 units',
            'held on the generated set pairs / batch sizes / schedules; both accumulator threads observed overlapping; injected thread failures re-raised',
            'only interleavings produced by the OS, injected delays and sys.monitoring yield injection are seen; their number is reported', '5/C09'),
    'C10': ('exploration', 'independent key-schedule references; every (key size, col_in, col_out) window; every DES round / interrupt point; key batch layouts, dtypes and row structures (palindromic, all-equal, runs); DES weak / semi-weak keys; random call histories on shared buffers with retained results re-checked',
            'held on every AES expansion triple and every DES round on structured + random keys; master key recovered from every round key',
            'trusts the independent references', '5/C10'),
    'C11': ('exploration', 'kernel-choice hook (dictate + record) differential, numba thread-count sweep, interpreter-mode kernel sanitizer (bounds, negative index, prange write-set race monitor); results read between forced batches; t-test accumulator objects under thread counts',
            'held for all kernel sequences up to 6 batches and the thread counts swept; 0 prange conflicts on the monitored kernels',
            'race monitor runs the kernels\' python source, not the emitted machine code; JIT-vs-interpreter differential links the two', '5/C11'),
    'C12': ('exploration', 'metamorphic twins (permutation / superset / undeclared values) + by-value exact oracles; hostile values isolated in child processes (crash = violation); class lists of up to 131072 entries; look-alike class arrays in one process; gapped classes in template-DPA matching',
            'held on the generated class lists and data over whole dtype ranges; no crash observed',
            'class values within [0, 2^17); undeclared hypothesis values in template matching are not judged', '5/C12'),
    'C13': ('exploration', 'joint-histogram oracle with exact edge comparisons; interpreter-mode bounds sanitizer on the MIA kernel; edge-list validation sweep (non-finite, far-from-zero, narrow, decreasing ranges); batches of mixed sample types',
            'held on the generated traces / edges (samples on, one ulp around and outside every edge); every non-uniform list refused, every linspace/arange list accepted',
            'only clearly uniform / clearly non-uniform edge lists are generated (tolerance of the validation not second-guessed)', '5/C13'),
    'C14': ('exploration', 'exact rational class means / pooled covariance, float64 Mahalanobis oracle mapped by class value; state recorder on build/match; empty and single-trace classes, singular covariance, second build()',
            'held on the generated build / match sets for both template attacks, both kernels forced',
            'covariance of classes with < 2 traces is not judged; scores compared within a conditioning-based tolerance', '5/C14'),
    'C15': ('exploration', 'python bit_count / shift / naive NaN-skipping reducers; exhaustive 8/16-bit sub-spaces; wide saturated word groups; long axes with NaN windows; model instance reuse with retained results; read-only inputs; infinite entries; other byte order',
            'exhaustive for uint8/uint16 popcount and Monobit, per-lane exhaustive for 32/64-bit, sampled shapes/axes/nb_words and NaN patterns',
            'trusts python integer arithmetic', '5/C15'),
    'C16': ('fault_enumeration', 'twin execution with one rejected call inserted at every position, every rejection kind (19, incl. data-dependent refusals in the last rows of 33000-70000-trace batches) x every distinguisher, automatic class sets and automatic MIA window, analysis-level process()/run() refusals with convergence traces observed',
            'every (subject, fault kind, position <= 4 batches) enumerated; later results and counts equal the twin that never saw the rejected call',
            'only calls that raise are judged; faults inside _update after accumulation started are out of scope', '5/C16'),
    'C17': ('exploration', 'end-to-end attack on leakage simulated from the reference cipher; rank of the expected key with margin recorded; Hamming-weight, bit and identity models',
            'true key ranked first for every attack class x selection function x batch size generated; near-ties counted inconclusive',
            'statistical: fixed wide margin (noise +-0.5, n = 1200..1500); XOR-only targets only with CPA', '5/C17'),
    'C18': ('exploration', 'naive pair enumeration in exact integer arithmetic rounded once; naive DFT / circular correlation; row-independence twins; second-call twins on the same preprocess object with retained outputs; other preprocess objects built afterwards; traces in the other byte order',
            'held on the generated dtype / frame / mode / distance configurations at dtype extremes',
            'Xcorr on odd frame lengths is a known finding pinned by two stable tests', '5/C18'),
    'C19': ('exploration', 'exact rational window statistics, naive scanners, three-clause peak specification evaluated on the returned set; exhaustive small signals; call histories on buffers refilled in place (reference calls after the history); thousands of extraction indexes',
            'exhaustive over all signals of length <= 6 (quick) / 7 (thorough) over {0..3} x distances x heights; sampled elsewhere',
            'kurtosis / skew on zero-variance windows not judged', '5/C19'),
    'C20': ('fault_enumeration', 'sequential reference model over the recorded call log of the user function; all 4^N accept/raise/None patterns; failure runs at the warning thresholds; check() before run(); pre-existing output; text metadata; seven exception classes raised by the user function; results in the other byte order',
            'every pattern over {accept, ResynchroError, Exception, None} for N <= 4 (quick) / 5 (thorough) + long random patterns',
            'ETS output read back through estraces', '5/C20'),
}

REPO_HOOK_COMMITS = ['4c28b16']


def main():
    props = [json.loads(line) for line in open(os.path.join(V, 'properties.jsonl'))]
    checks, na = [], []
    for p in props:
        pid = p['id']
        if os.path.exists(os.path.join(V, 'vf', 'props', pid.lower() + '.py')) and pid in T:
            cat, tech, text, note, ref = T[pid]
            checks.append(dict(
                property_id=pid,
                quick_cmd=f'./check {pid} quick',
                thorough_cmd=f'./check {pid} thorough',
                evidence_file=f'/verif/evidence/{pid}.json',
                replay_cmd_template=f'./check {pid} --replay {{path}}',
                engine='vf',
                level_claimed=dict(category=cat, text=text, design_ref='DESIGN.md section ' + ref),
                level_note=note,
                technique='runtime monitoring: ' + tech,
            ))
        else:
            na.append(dict(property_id=pid, reason='check not built yet (work in progress; decidable with this family, see DESIGN.md section 5)'))
    hook_commits = subprocess.run(['git', '-C', '/repo', 'log', '--format=%h', '--grep=^verif hook'], capture_output=True, text=True).stdout.split()
    m = dict(
        version=1,
        setup_cmd='./setup.sh',
        hooks=dict(
            guard='SCARED_VERIF',
            enable='environment variable SCARED_VERIF=1 (exported by ./check); scared is pure Python and is imported from /repo\'s working tree, so nothing is built',
            baseline_off_cmd='cd /repo && env -u SCARED_VERIF /venv/bin/python -m pytest -ra -q -p no:cacheprovider --timeout=900 --continue-on-collection-errors',
            source_commits=hook_commits or REPO_HOOK_COMMITS,
            add_only=True,
        ),
        engines=[dict(name='vf', path='/verif/vf', serves_properties=[c['property_id'] for c in checks],
                      kind_free_text='python harness: seeded workload generators, API-boundary monitors, exact/independent oracles, '
                                     'interpreter-mode kernel sanitizer, crash-isolating worker processes')],
        checks=checks,
        notes='All checks: exit 0 held on everything explored, 1 with VIOLATION line, 3 inconclusive (no VIOLATION line). '
              'VERIF_SEED selects the random sub-seeds; known findings are listed in /verif/known_findings.json.',
        not_applicable=na,
    )
    with open(os.path.join(V, 'MANIFEST.json'), 'w') as f:
        json.dump(m, f, indent=1)
    sys.path.append(os.path.join(V, '.deps'))
    import jsonschema
    jsonschema.validate(m, json.load(open('/root/.vp/MANIFEST.schema.json')))
    print('manifest ok:', len(checks), 'checks,', len(na), 'not yet claimed')


if __name__ == '__main__':
    main()
