#!/bin/bash
# usage: tools/mutpy.sh <ID> <tier> <file> <old-string> <new-string>   (exact string replacement, first occurrence unless MUT_ALL=1)
id=$1; tier=$2; file=$3; old=$4; new=$5
W=${MUT_DIR:-/tmp/scared-mut-$$}
git -C /repo worktree add -q --detach $W HEAD 2>/dev/null
OLD="$old" NEW="$new" /venv/bin/python - "$W/$file" <<'PY'
import os, sys
p = sys.argv[1]; s = open(p).read(); old = os.environ['OLD']; new = os.environ['NEW']
if old not in s:
    print('MUTATION DID NOT APPLY'); sys.exit(0)
s = s.replace(old, new) if os.environ.get('MUT_ALL') else s.replace(old, new, 1)
open(p, 'w').write(s)
PY
git -C $W diff --stat | tail -1
VERIF_REPO=$W /verif/check $id $tier 2>&1 | grep -v conda | grep -m3 "verdict=\|VIOLATION\|mechanism" | cut -c1-330
git -C /repo worktree remove --force $W
