#!/venv/bin/python
"""Prints the markdown table of DESIGN.md section 11 from /verif/seeded/*/meta.json (what each seeded change needs, which checks caught it)."""
import glob
import json
import os

V = os.path.dirname(os.path.dirname(os.path.abspath(__file__)))


def main():
    rows = []
    for d in sorted(glob.glob(os.path.join(V, 'seeded', '*'))):
        try:
            m = json.load(open(os.path.join(d, 'meta.json')))
        except Exception:
            continue
        c = m.get('confirmed_by_harness_author', {})
        checks = c.get('checks', {})
        caught = [f"{k} ({', '.join(v.get('mechanisms', [])[:2])})" for k, v in sorted(checks.items()) if v.get('verdict') == 'violated']
        missed = [k for k, v in sorted(checks.items()) if v.get('verdict') != 'violated']
        summ = (m.get('summary') or '').replace('\n', ' ').replace('|', '/')
        needs = (m.get('needs_to_manifest') or '').replace('\n', ' ').replace('|', '/')
        rows.append((os.path.basename(d), m.get('property', ''), summ[:230], needs[:200], '; '.join(caught) or '-', ', '.join(missed) or '-',
                     f"{c.get('demo_exit_on_pristine')}/{c.get('demo_exit_with_patch')}"))
    print('| seed | property | change (author\'s summary, abridged) | needs to manifest | caught by (first mechanisms) | also run, not alarmed | demo exit pristine/patched |')
    print('|---|---|---|---|---|---|---|')
    for r in rows:
        print('| ' + ' | '.join(r) + ' |')
    n = len(rows)
    nc = sum(1 for r in rows if r[4] != '-')
    print(f'\n{nc} of {n} seeded changes are caught by at least one check.')


if __name__ == '__main__':
    main()
