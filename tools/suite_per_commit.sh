#!/bin/bash
# usage: suite_per_commit.sh <base>..<head>  -- runs the pinned suite (guard off) on every commit of the range, in parallel scratch worktrees
range=${1:-9292671..HEAD}
unset SCARED_VERIF
for c in $(git -C /repo rev-list --reverse $range); do
  (
    d=/tmp/bt-$c
    git -C /repo worktree add -q --detach $d $c
    out=$(/venv/bin/python /verif/tools/baseline_cmp.py $d 2>&1 | grep -v conda | tr '\n' ' ')
    echo "$(git -C /repo log --format='%h %s' -1 $c | cut -c1-70) :: $out"
    git -C /repo worktree remove --force $d
  ) &
done
wait
