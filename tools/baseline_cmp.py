"""usage: baseline_cmp.py <repo_dir>  -- runs pinned suite there, compares with BASELINE stable_pass."""
import json, subprocess, sys, xml.etree.ElementTree as ET, tempfile, os
repo=sys.argv[1]
out=tempfile.mktemp(suffix='.xml')
subprocess.run(['/venv/bin/python','-m','pytest','-ra','-q','-p','no:cacheprovider','--timeout=900','--continue-on-collection-errors',f'--junitxml={out}'],cwd=repo,stdout=subprocess.DEVNULL,stderr=subprocess.DEVNULL)
passed=set()
for tc in ET.parse(out).getroot().iter('testcase'):
    if not any(ch.tag in('failure','error','skipped') for ch in tc): passed.add(f"{tc.get('classname')}::{tc.get('name')}")
stable=set(json.load(open('/root/.vp/BASELINE.json'))['stable_pass'])
print('passed',len(passed),'stable',len(stable),'stable-but-not-passed',len(stable-passed))
for t in sorted(stable-passed)[:40]: print('  MISSING',t)
os.remove(out)
