#!/bin/bash
# Re-runs the seeded defects of /verif/seeded (quick tier) and refreshes the outcome recorded in their meta.json.
# For each seed the check of its own property is run if it caught the seed before, otherwise the first check that did
# (FULL=1: every check recorded in the meta).   usage: tools/seed_regress.sh [name-prefix ...]     e.g. tools/seed_regress.sh C08 C09-1
cd "$(dirname "$0")/.."
pats=("$@"); [ ${#pats[@]} -eq 0 ] && pats=(C)
for pat in "${pats[@]}"; do
for d in seeded/${pat}*/; do
  name=$(basename $d)
  ids=$(FULL=$FULL /venv/bin/python - "$d" <<'PY'
import json, os, sys
m = json.load(open(sys.argv[1] + '/meta.json'))
ch = m.get('confirmed_by_harness_author', {}).get('checks', {})
prop = m.get('property', os.path.basename(sys.argv[1].rstrip('/'))[:3])
if os.environ.get('FULL'):
    print(' '.join(sorted(ch)) or prop)
else:
    caught = [k for k, v in sorted(ch.items()) if v.get('verdict') == 'violated']
    print(prop if prop in caught or not caught else caught[0])
PY
)
  tools/seed.py $d $name quick $ids 2>&1 | grep -v conda
done
done
