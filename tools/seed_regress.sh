#!/bin/bash
# Re-runs every seeded defect of /verif/seeded against the checks recorded in its meta.json (quick tier) and refreshes the recorded outcome.
# usage: tools/seed_regress.sh [name-prefix]      e.g. tools/seed_regress.sh C08
cd "$(dirname "$0")/.."
for d in seeded/${1:-C}*/; do
  name=$(basename $d)
  ids=$(/venv/bin/python -c "import json,sys; m=json.load(open('$d/meta.json')); print(' '.join(sorted(m.get('confirmed_by_harness_author',{}).get('checks',{}).keys())) or m.get('property',''))")
  tools/seed.py $d $name quick $ids 2>&1 | grep -v conda
done
