#!/bin/bash
# usage: tools/mut.sh <ID> <tier> <file> <sed-expr> [<file> <sed-expr> ...]   (break-test on a scratch worktree of /repo HEAD)
id=$1; tier=$2; shift 2
W=${MUT_DIR:-/tmp/scared-mut-$$}
git -C /repo worktree add -q --detach $W HEAD 2>/dev/null
while [ $# -ge 2 ]; do sed -i "$2" $W/$1; shift 2; done
if git -C $W diff --quiet; then echo "MUTATION DID NOT APPLY"; fi
git -C $W diff --stat | tail -1
VERIF_REPO=$W VERIF_TMP= /verif/check $id $tier 2>&1 | grep -v conda | grep -m3 "verdict=\|VIOLATION\|mechanism" | cut -c1-330
git -C /repo worktree remove --force $W
