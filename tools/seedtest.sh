#!/bin/bash
# usage: tools/seedtest.sh <seed_dir> <tier> <ID> [<ID> ...]
# Confirms a seeded defect (demo passes on pristine, fails with the patch) and runs the named checks against a scratch worktree with the patch applied.
d=$1; tier=$2; shift 2
W=/tmp/seedwt-$$
git -C /repo worktree add -q --detach $W HEAD 2>/dev/null
( cd $W && PYTHONPATH=$W timeout 900 /venv/bin/python $d/demo.py >/dev/null 2>&1 ); echo "demo on pristine: exit $?"
if ! git -C $W apply $d/patch.diff 2>/dev/null; then echo "PATCH DOES NOT APPLY"; git -C /repo worktree remove --force $W; exit 2; fi
git -C $W diff --stat | tail -1
( cd $W && PYTHONPATH=$W timeout 900 /venv/bin/python $d/demo.py >/dev/null 2>&1 ); echo "demo with patch: exit $?"
for id in "$@"; do
  VERIF_REPO=$W /verif/check $id $tier 2>&1 | grep -v conda | grep -m3 "verdict=\|VIOLATION\|mechanism\|INCONCLUSIVE" | cut -c1-420
done
git -C /repo worktree remove --force $W
