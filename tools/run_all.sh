#!/bin/bash
# Runs every registered check (tier $1, default quick) against /repo, one after the other, and prints one verdict line per property.
# The evidence files under /verif/evidence are rewritten by the checks themselves.
cd "$(dirname "$0")/.."
tier=${1:-quick}
rc=0
for id in $(/venv/bin/python -c "import json; print(' '.join(c['property_id'] for c in json.load(open('MANIFEST.json'))['checks']))"); do
  s=$(date +%s)
  ./check $id $tier > .scratch_run_$id.log 2>&1; e=$?
  echo "$id exit=$e $(( $(date +%s) - s ))s $(grep -m1 'verdict=' .scratch_run_$id.log | cut -c1-200)"
  grep "VIOLATION\|INCONCLUSIVE" .scratch_run_$id.log | head -3
  [ $e -ne 0 ] && rc=1
  rm -f .scratch_run_$id.log
done
exit $rc
