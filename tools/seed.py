#!/venv/bin/python
"""Confirm a seeded defect and run checks against it.

usage: tools/seed.py <seed_dir> <name> <tier> <ID> [<ID> ...]     e.g. tools/seed.py /tmp/seed/C03out/seed_1 C03-1 quick C03
  1. scratch worktree of /repo HEAD under /tmp (removed afterwards); demo.py must exit 0 there;
  2. patch.diff applied; demo.py must exit non-zero;
  3. the pinned suite must stay green with the patch (tools/baseline_cmp.py) unless --no-suite (already verified by the author of the seed);
  4. every named check is run with VERIF_REPO pointing at the patched worktree; verdict and first mechanism recorded;
  5. the seed is stored as /verif/seeded/<name>/ (patch.diff, demo.py, meta.json with what was run and observed).
If the seed directory is already /verif/seeded/<name> it is re-tested in place.
"""
import json
import os
import re
import shutil
import subprocess
import sys

V = os.path.dirname(os.path.dirname(os.path.abspath(__file__)))


def sh(cmd, **kw):
    return subprocess.run(cmd, shell=isinstance(cmd, str), capture_output=True, text=True, **kw)


def main():
    args = [a for a in sys.argv[1:] if not a.startswith('--')]
    suite = '--suite' in sys.argv
    src, name, tier, ids = args[0], args[1], args[2], args[3:]
    src = os.path.abspath(src)
    W = f'/tmp/seedwt-{os.getpid()}'
    sh(f'git -C /repo worktree add -q --detach {W} HEAD')
    out = dict(name=name, checks={})
    try:
        env = dict(os.environ, PYTHONPATH=W)
        r0 = subprocess.run(['/venv/bin/python', os.path.join(src, 'demo.py')], cwd=W, env=env, capture_output=True, text=True, timeout=1800)
        out['demo_exit_on_pristine'] = r0.returncode
        ap = sh(f'git -C {W} apply {src}/patch.diff')
        if ap.returncode != 0:
            print('PATCH DOES NOT APPLY', ap.stderr[-300:])
            return 2
        out['files_changed'] = sh(f'git -C {W} diff --stat').stdout.strip().splitlines()[-1].strip()
        r1 = subprocess.run(['/venv/bin/python', os.path.join(src, 'demo.py')], cwd=W, env=env, capture_output=True, text=True, timeout=1800)
        out['demo_exit_with_patch'] = r1.returncode
        out['demo_output_with_patch'] = (r1.stdout + r1.stderr).strip().splitlines()[-1][:300] if (r1.stdout + r1.stderr).strip() else ''
        print(f"{name}: demo pristine exit {r0.returncode}, with patch exit {r1.returncode}; {out['files_changed']}")
        if suite:
            b = sh(['/venv/bin/python', os.path.join(V, 'tools', 'baseline_cmp.py'), W], env={k: v for k, v in os.environ.items() if k != 'SCARED_VERIF'})
            out['pinned_suite_with_patch'] = b.stdout.strip().splitlines()[0] if b.stdout.strip() else b.stderr[-200:]
            print('  suite:', out['pinned_suite_with_patch'])
        for pid in ids:
            c = sh([os.path.join(V, 'check'), pid, tier], env=dict(os.environ, VERIF_REPO=W))
            text = '\n'.join(ln for ln in c.stdout.splitlines() if 'conda' not in ln)
            m = re.search(r'verdict=(\w+)', text)
            mech = re.findall(r'mechanism=(\S+)', text)
            out['checks'][pid] = dict(tier=tier, exit=c.returncode, verdict=m.group(1) if m else None, mechanisms=sorted(set(mech))[:6])
            print(f"  {pid} {tier}: exit {c.returncode} verdict={m.group(1) if m else None} mechanisms={sorted(set(mech))[:4]}")
    finally:
        sh(f'git -C /repo worktree remove --force {W}')
    dst = os.path.join(V, 'seeded', name)
    os.makedirs(dst, exist_ok=True)
    if src != dst:
        for f in ('patch.diff', 'demo.py'):
            shutil.copy(os.path.join(src, f), os.path.join(dst, f))
    meta_path = os.path.join(dst, 'meta.json')
    meta = {}
    for p in (meta_path, os.path.join(src, 'meta.json')):
        if os.path.exists(p):
            try:
                meta = json.load(open(p))
                break
            except ValueError:
                pass
    conf = meta.setdefault('confirmed_by_harness_author', {})
    conf.update({k: v for k, v in out.items() if k not in ('checks', 'name')})
    conf.setdefault('checks', {}).update(out['checks'])
    conf['how'] = ('tools/seed.py: scratch worktree of /repo HEAD, demo.py on pristine and with patch.diff applied, then ./check <ID> <tier> with '
                   'VERIF_REPO pointing at the patched worktree; worktree removed afterwards')
    json.dump(meta, open(meta_path, 'w'), indent=1)
    return 0


if __name__ == '__main__':
    sys.exit(main())
