"""Seeded workload generators shared by the distinguisher-family checks.

Everything is regenerated from small JSON specs with numpy.random.Generator(PCG64(sub_seed)).
E-regime ("exact"): integer-valued inputs bounded so that every accumulated sum (mode 'acc') or every sum and
every product formed in compute() (mode 'full') is an integer exactly representable in the precision.
"""
import math

import numpy as np

LIMIT = {'float32': 2 ** 24, 'float64': 2 ** 53}
TRACE_DTYPES_INT = ['uint8', 'int8', 'int16', 'uint16', 'int32']
TRACE_DTYPES_FLOAT = ['float32', 'float64']
TRACE_DTYPES = TRACE_DTYPES_INT + TRACE_DTYPES_FLOAT


def rng_of(sub):
    return np.random.Generator(np.random.PCG64(int(sub)))


def dtype_range(dt):
    dt = np.dtype(dt)
    if dt.kind in 'iu':
        i = np.iinfo(dt)
        return int(i.min), int(i.max)
    return -2 ** 23, 2 ** 23


def exact_bound(n, precision, ymax=1, mode='acc', quadratic=True):
    """Largest |x| such that the sums are exact in `precision` for n traces and data values <= ymax."""
    L = LIMIT[str(np.dtype(precision))] - 1
    if mode == 'acc':
        # sum x^2 <= n X^2 , sum x*y <= n X ymax
        X = int(math.isqrt(L // max(1, n)))
        X = min(X, L // max(1, n * max(1, ymax)))
    else:
        # n * sum x^2, (sum x)^2 <= n^2 X^2 ; n * sum xy <= n^2 X ymax ; n * sum y^2 <= n^2 ymax^2
        X = int(math.isqrt(L // max(1, n * n)))
        X = min(X, L // max(1, n * n * max(1, ymax)))
    return max(X, 0)


def int_traces(rng, n, T, dtype, X, signed_ok=True, style=None):
    """Integer-valued traces of the given dtype with |x| <= X (clipped to the dtype range)."""
    lo_d, hi_d = dtype_range(dtype)
    hi = min(X, hi_d)
    lo = max(-X, lo_d) if signed_ok else 0
    lo = min(lo, hi)
    style = style if style is not None else int(rng.integers(4))
    if style == 0:
        a = rng.integers(lo, hi + 1, (n, T))
    elif style == 1:                                   # two-valued columns, some constant columns
        a = rng.choice([lo, hi], (n, T))
        a[:, rng.random(T) < 0.3] = hi
    elif style == 2:                                   # small spread around an offset
        off = int(rng.integers(lo, hi + 1))
        a = np.clip(off + rng.integers(-2, 3, (n, T)), lo, hi)
    else:                                              # per-column ranges
        a = np.stack([rng.integers(lo, max(lo, int(rng.integers(lo, hi + 1))) + 1, n) for _ in range(T)], axis=1)
    return a.astype(dtype)


def float_traces(rng, n, T, dtype, offset=0.0, sigma=1.0):
    return (offset + sigma * rng.standard_normal((n, T))).astype(dtype)


def layout(rng, a, kind=None):
    """Same values in another memory layout: C, F, strided view, or non-contiguous slice of a larger array."""
    kind = kind if kind is not None else int(rng.integers(4))
    if kind == 0:
        return np.ascontiguousarray(a)
    if kind == 1:
        return np.asfortranarray(a)
    if kind == 2:
        big = np.zeros((a.shape[0], a.shape[1] * 2), dtype=a.dtype)
        big[:, ::2] = a
        return big[:, ::2]
    big = np.zeros((a.shape[0] * 2, a.shape[1]), dtype=a.dtype)
    big[::2] = a
    return big[::2]


def split_sizes(rng, n, kind=None, kmax=9):
    """An ordered composition of n into non-empty parts."""
    if n == 1:
        return [1]
    kind = kind if kind is not None else ['ones', 'head1', 'tail1', 'random', 'random', 'halves', 'special'][int(rng.integers(7))]
    if kind == 'special':
        # batches of a 'special' length (powers of two and neighbours: block sizes of chunked loops), remainder last
        ok = [v for v in (8, 16, 32, 64, 128, 256, 512, 1024, 255, 257, 100) if v < n]
        if ok:
            b = int(ok[int(rng.integers(len(ok)))])
            out = [b] * min(n // b, int(rng.integers(1, 4)))
            if n - sum(out) > 0:
                out.append(n - sum(out))
            return out if len(out) <= kmax + 1 else [b, n - b]
        kind = 'random'
    if kind == 'ones' and n <= 40:
        return [1] * n
    if kind == 'head1':
        return [1, n - 1]
    if kind == 'tail1':
        return [n - 1, 1]
    if kind == 'halves':
        return [n // 2, n - n // 2]
    k = int(rng.integers(2, min(kmax, n) + 1))
    cuts = sorted(rng.choice(np.arange(1, n), size=k - 1, replace=False).tolist())
    edges = [0] + cuts + [n]
    return [b - a for a, b in zip(edges[:-1], edges[1:])]


def batches(arrays, sizes):
    pos = 0
    for s in sizes:
        yield tuple(a[pos:pos + s] for a in arrays)
        pos += s


WORD_SHAPES = [(), (1,), (2,), (3,), (4,), (2, 2), (3, 2), (1, 3)]


def word_count(ws):
    return int(np.prod(ws)) if ws else 1


def data_shape(n, ws):
    return (n,) + tuple(ws)


def layout_nd(rng, a, kind=None):
    """Same values of an n-D array in another memory layout: C, Fortran, transposed-buffer view, strided rows."""
    kind = kind if kind is not None else int(rng.integers(4))
    if kind == 0 or a.ndim < 2:
        return np.ascontiguousarray(a)
    if kind == 1:
        return np.asfortranarray(a)
    if kind == 2:
        # view obtained by transposing a buffer stored with the axes reversed (e.g. a (words..., n) table transposed)
        return np.ascontiguousarray(a.transpose(tuple(range(a.ndim))[::-1])).transpose(tuple(range(a.ndim))[::-1])
    big = np.zeros((a.shape[0] * 2,) + a.shape[1:], dtype=a.dtype)
    big[::2] = a
    return big[::2]


SPECIAL_SIZES = [8, 9, 10, 16, 17, 31, 32, 33, 63, 64, 65, 127, 128, 129, 255, 256, 257]


def pick_n(rng, choices, hi=None):
    """A size: mostly from the stratified list, sometimes a 'special' size (powers of two and their neighbours, numbers of guesses /
    classes: sites of fast paths and chunked loops) or a uniform draw - so that no size is systematically avoided."""
    hi = hi if hi is not None else max(choices)
    r = rng.random()
    if r < 0.6:
        return int(rng.choice(choices))
    if r < 0.8:
        ok = [v for v in SPECIAL_SIZES if min(choices) <= v <= hi]
        if ok:
            return int(ok[int(rng.integers(len(ok)))])
    return int(rng.integers(min(choices), hi + 1))
