"""Monitors: kernel-choice control/recorder (C11 hook), call/return recorders, interpreter-mode kernel
sanitizer (bounds, negative index, prange write-set race monitor), processed_traces shadow counter."""
import itertools
import threading
import types

import numpy as np


# ---------------------------------------------------------------------------------------------------------
# kernel choice (SCARED_VERIF hook in scared.distinguishers.partitioned / template)

class KernelControl:
    """Installed as scared.distinguishers.partitioned._verif_kernel_chooser.

    plan[id(obj)] is a list of kernel indexes consumed one per accumulation; when exhausted or absent the
    `default` is used (None = keep the timing-based choice).  Every call is logged.
    """

    def __init__(self):
        self.plans = {}
        self.default = None
        self.log = []            # (object id, natural index, chosen index, selectable)
        self._lock = threading.Lock()

    def install(self):
        from scared.distinguishers import partitioned
        if not getattr(partitioned, '_VERIF', False) or not hasattr(partitioned, '_verif_kernel_chooser'):
            return False
        partitioned._verif_kernel_chooser = self
        return True

    def uninstall(self):
        from scared.distinguishers import partitioned
        if hasattr(partitioned, '_verif_kernel_chooser'):
            partitioned._verif_kernel_chooser = None

    _ids = itertools.count(1)

    def key(self, obj):
        # id() values are reused after garbage collection: tag the instance the harness created instead
        k = getattr(obj, '_vf_key', None)
        if k is None:
            k = next(self._ids)
            try:
                obj._vf_key = k
            except Exception:
                k = ('id', id(obj))
        return k

    def force(self, obj, seq):
        self.plans[self.key(obj)] = list(seq)

    def __call__(self, obj, idx, selectable):
        with self._lock:
            chosen = int(idx)
            if selectable:
                plan = self.plans.get(self.key(obj))
                if plan:
                    chosen = int(plan.pop(0))
                elif self.default is not None:
                    chosen = int(self.default)
            self.log.append((self.key(obj), int(idx), chosen, bool(selectable)))
            return chosen

    def choices_of(self, obj):
        k = self.key(obj)
        return [c for (i, _, c, _) in self.log if i == k]


CONTROL = KernelControl()


# ---------------------------------------------------------------------------------------------------------
# shadow counter on update()

class CountedSubject:
    """Wraps update/compute of an object the harness created: records a call log at the client boundary and
    checks after every accepted update that processed_traces equals the number of accepted rows."""

    def __init__(self, obj, tally, update=None, compute=None):
        self.obj = obj
        self.t = tally
        self.accepted = 0
        self.log = []
        self._update = update or obj.update
        self._compute = compute or obj.compute

    def update(self, traces, data=None):
        self.log.append(('call', 'update', int(traces.shape[0])))
        try:
            if data is None:
                self._update(traces)
            else:
                self._update(traces, data)
        except Exception as e:
            self.log.append(('raise', 'update', type(e).__name__))
            raise
        self.accepted += int(traces.shape[0])
        self.log.append(('return', 'update', int(traces.shape[0])))
        self.t.count('shadow_count_checks')
        self.t.check(self.obj.processed_traces == self.accepted, 'processed_traces_shadow',
                     lambda: dict(processed_traces=int(self.obj.processed_traces), accepted_rows=self.accepted, log=self.log[-6:]))

    def compute(self):
        self.log.append(('call', 'compute'))
        r = self._compute()
        self.log.append(('return', 'compute'))
        return r


# ---------------------------------------------------------------------------------------------------------
# interpreter-mode kernel sanitizer (DESIGN section 2, S1)

class _Shim:
    def __init__(self, real, mon):
        self._r = real
        self._m = mon

    def __getattr__(self, k):
        return getattr(self._r, k)

    def prange(self, *a):
        for i in range(*a):
            self._m.cur = i
            yield i
        self._m.cur = None


class KernelMonitor:
    def __init__(self):
        self.cur = None
        self.writes = {}      # (array name, flat cell) -> set of prange iterations that wrote it
        self.reads = {}       # (array name, flat cell) -> set of prange iterations that read it
        self.negative_index_writes = 0
        self.write_events = 0
        self.read_events = 0

    def conflicts(self):
        ww = [k for k, v in self.writes.items() if len(v) > 1]
        rw = [k for k, v in self.writes.items() if k in self.reads and (self.reads[k] - v)]
        return ww, rw


class Tracked:
    """Array proxy logging, per prange iteration, the flat cells read and written through indexing."""

    def __init__(self, arr, mon, name):
        self.a = arr
        self.m = mon
        self.name = name
        self.shape = arr.shape
        self.dtype = arr.dtype
        self.ndim = arr.ndim
        self._ids = np.arange(arr.size).reshape(arr.shape)

    def __len__(self):
        return len(self.a)

    def _cells(self, idx):
        return np.atleast_1d(self._ids[idx]).ravel().tolist()

    def __getitem__(self, idx):
        v = self.a[idx]            # numpy raises IndexError where JIT code would read out of bounds
        for f in self._cells(idx):
            self.m.reads.setdefault((self.name, f), set()).add(self.m.cur)
        self.m.read_events += 1
        return v

    def __setitem__(self, idx, v):
        t = idx if isinstance(idx, tuple) else (idx,)
        if any(isinstance(i, (int, np.integer)) and i < 0 for i in t):
            self.m.negative_index_writes += 1
        cells = self._cells(idx)   # IndexError on out-of-bounds
        for f in cells:
            self.m.writes.setdefault((self.name, f), set()).add(self.m.cur)
        self.m.write_events += 1
        self.a[idx] = v

    # in-place operators used by the kernels on whole arrays (self_sum += ...): treated as write of every cell
    def __iadd__(self, other):
        for f in range(self.a.size):
            self.m.writes.setdefault((self.name, f), set()).add(self.m.cur)
            self.m.reads.setdefault((self.name, f), set()).add(self.m.cur)
        self.m.write_events += 1
        self.a += other
        return self


def interpreted(dispatcher, mon):
    """The python source of a numba dispatcher, with `_nb.prange` replaced by an announcing generator."""
    f = dispatcher.py_func
    g = dict(f.__globals__)
    g['_nb'] = _Shim(g['_nb'], mon)
    return types.FunctionType(f.__code__, g, f.__name__, f.__defaults__, f.__closure__)
