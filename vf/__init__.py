"""Runtime-monitoring harness for eshard/scared (see /verif/DESIGN.md)."""
import os
import sys

VERIF_DIR = os.path.dirname(os.path.dirname(os.path.abspath(__file__)))
REPO_DIR = os.environ.get('VERIF_REPO', '/repo')
DEPS_DIR = os.path.join(VERIF_DIR, '.deps')

# The harness' own third-party helpers go *after* the interpreter's packages so that they never
# shadow what the repository itself imports (attrs, typing_extensions, ...).
if DEPS_DIR not in sys.path:
    sys.path.append(DEPS_DIR)
