"""Reference statistics, independent of scared.

Integer-valued inputs are evaluated exactly (python integers / fractions); float inputs with centred long
double two-pass formulas.  Every function returns (value, scale, undefined):
  value      float64 array of the definition,
  scale      first-order absolute error per unit round-off of a natural evaluation from the sufficient
             statistics (sums of positive and negative parts entering each cancellation) - the comparison
             tolerance is C * eps * scale (exact regime) or C * n * eps * scale (rounding regime),
  undefined  boolean mask of entries whose statistic is undefined (0/0, x/0): NaN is expected there.
"""
from fractions import Fraction
import math

import numpy as np

LD = np.longdouble


def is_integral(a):
    a = np.asarray(a)
    return a.dtype.kind in 'iub' or bool(np.all(np.isfinite(a)) and np.all(a == np.round(a)) and np.all(np.abs(a) < 2 ** 52))


def _ints(a):
    return np.asarray(a).astype(np.int64)


def _f(v):
    """exact python int / Fraction -> float (correctly rounded)."""
    return float(v)


# ---------------------------------------------------------------------------------------------------------
def cpa(x, y):
    """Pearson correlation between every column of y (n, W) and every column of x (n, T) -> (W, T)."""
    x, y = np.asarray(x), np.asarray(y)
    n = x.shape[0]
    if is_integral(x) and is_integral(y):
        xi, yi = _ints(x).astype(object), _ints(y).astype(object)
        sx, sy = xi.sum(0), yi.sum(0)
        sxx, syy = (xi * xi).sum(0), (yi * yi).sum(0)
        sxy = yi.T.dot(xi)
        W, T = y.shape[1], x.shape[1]
        val = np.full((W, T), np.nan)
        scale = np.zeros((W, T))
        undef = np.zeros((W, T), dtype=bool)
        for w in range(W):
            vy = n * syy[w] - sy[w] * sy[w]
            for t in range(T):
                vx = n * sxx[t] - sx[t] * sx[t]
                num = n * sxy[w, t] - sx[t] * sy[w]
                if vx == 0 or vy == 0:
                    undef[w, t] = True
                    continue
                d = math.sqrt(_f(vx)) * math.sqrt(_f(vy))
                r = _f(num) / d
                val[w, t] = r
                kx = _f(n * sxx[t] + sx[t] * sx[t]) / _f(vx)
                ky = _f(n * syy[w] + sy[w] * sy[w]) / _f(vy)
                scale[w, t] = _f(abs(n * sxy[w, t]) + abs(sx[t] * sy[w])) / d + abs(r) * (kx + ky + 4)
        return val, scale, undef
    xl, yl = x.astype(LD), y.astype(LD)
    mx, my = xl.mean(0), yl.mean(0)
    xc, yc = xl - mx, yl - my
    vx, vy = (xc * xc).sum(0), (yc * yc).sum(0)
    num = yc.T.dot(xc)
    with np.errstate(all='ignore'):
        d = np.sqrt(vy)[:, None] * np.sqrt(vx)[None, :]
        val = num / d
        kx = ((xl * xl).sum(0) + n * mx * mx) / vx
        ky = ((yl * yl).sum(0) + n * my * my) / vy
        scale = (np.abs(yl).T.dot(np.abs(xl)) + n * np.abs(my)[:, None] * np.abs(mx)[None, :]) / d + np.abs(val) * (ky[:, None] + kx[None, :] + 4)
    undef = ~np.isfinite(val.astype(float))
    return val.astype(float), scale.astype(float), undef


def dpa(x, bits):
    """mean(x | bit=1) - mean(x | bit=0) for every column of bits (n, W) -> (W, T)."""
    x, bits = np.asarray(x), np.asarray(bits)
    W, T = bits.shape[1], x.shape[1]
    val = np.full((W, T), np.nan)
    scale = np.zeros((W, T))
    undef = np.zeros((W, T), dtype=bool)
    exact = is_integral(x)
    xs = _ints(x).astype(object) if exact else x.astype(LD)
    for w in range(W):
        m1 = bits[:, w] == 1
        n1, n0 = int(m1.sum()), int((~m1).sum())
        if n1 == 0 or n0 == 0:
            undef[w] = True
            continue
        s1, s0 = xs[m1].sum(0), xs[~m1].sum(0)
        a1 = np.abs(x[m1].astype(float)).sum(0)
        a0 = np.abs(x[~m1].astype(float)).sum(0)
        for t in range(T):
            if exact:
                val[w, t] = _f(Fraction(int(s1[t]), n1) - Fraction(int(s0[t]), n0))
            else:
                val[w, t] = float(s1[t] / n1 - s0[t] / n0)
            # zeros are obtained as (all - ones): the cancellation scale involves the total as well
            scale[w, t] = a1[t] / n1 + (a1[t] + a0[t] + a1[t]) / n0 + abs(val[w, t]) * 4
    return val, scale, undef


def _class_stats(x, values, classes):
    """per class (in the order of `classes`): count, sum, sum of squares (exact ints or long doubles), sum |x|."""
    exact = is_integral(x)
    xs = _ints(x).astype(object) if exact else np.asarray(x).astype(LD)
    out = []
    for c in classes:
        m = values == c
        k = int(m.sum())
        if k:
            out.append((k, xs[m].sum(0), (xs[m] * xs[m]).sum(0)))
        else:
            z = np.zeros(x.shape[1], dtype=object if exact else LD)
            out.append((0, z, z))
    return exact, out


def partitioned(kind, x, data, classes):
    """ANOVA F / NICV / SNR for traces x (n, T), class values data (n, W), declared class values `classes`.

    Traces whose value is not declared do not take part. Returns (W, T) arrays.
    """
    x, data = np.asarray(x), np.asarray(data)
    W, T = data.shape[1], x.shape[1]
    K = len(classes)
    val = np.full((W, T), np.nan)
    scale = np.zeros((W, T))
    undef = np.zeros((W, T), dtype=bool)
    for w in range(W):
        exact, st = _class_stats(x, data[:, w], classes)
        ne = [(k, s, ss) for (k, s, ss) in st if k > 0]
        kk = len(ne)
        n = sum(k for k, _, _ in ne)
        for t in range(T):
            if n == 0:
                undef[w, t] = True
                continue
            if exact:
                tot = sum(int(s[t]) for _, s, _ in ne)
                tot2 = sum(int(ss[t]) for _, _, ss in ne)
                m = Fraction(tot, n)
                means = [Fraction(int(s[t]), k) for k, s, _ in ne]
                sq = [int(ss[t]) for _, _, ss in ne]
            else:
                tot = sum(s[t] for _, s, _ in ne)
                tot2 = sum(ss[t] for _, _, ss in ne)
                m = tot / n
                means = [s[t] / k for k, s, _ in ne]
                sq = [ss[t] for _, _, ss in ne]
            cnt = [k for k, _, _ in ne]
            absm = float(abs(m))
            if kind == 'anova':
                num = sum(k * (mc - m) ** 2 for k, mc in zip(cnt, means))
                den = sum(s2 - k * mc * mc for k, mc, s2 in zip(cnt, means, sq))
                if kk - 1 == 0 or n - kk == 0 or den == 0:
                    undef[w, t] = True
                    continue
                v = (num / (kk - 1)) / (den / (n - kk))
                num_s = sum(k * 2 * abs(float(mc - m)) * (abs(float(mc)) + absm) for k, mc in zip(cnt, means)) + float(num) * 4
                den_s = sum(float(s2) + k * float(mc * mc) for k, mc, s2 in zip(cnt, means, sq))
                fv = float(v)
                sc = (num_s / float(den)) * (n - kk) / (kk - 1) + abs(fv) * den_s / float(den) + abs(fv) * 4
            elif kind == 'nicv':
                num = sum((mc - m) ** 2 * k for k, mc in zip(cnt, means)) / n
                den = (tot2 / n - m * m) if not exact else (Fraction(tot2, n) - m * m)
                if den == 0:
                    undef[w, t] = True
                    continue
                v = num / den
                num_s = sum(k * 2 * abs(float(mc - m)) * (abs(float(mc)) + absm) for k, mc in zip(cnt, means)) / n + float(num) * 4
                den_s = float(tot2) / n + absm * absm
                fv = float(v)
                sc = num_s / float(den) + abs(fv) * den_s / float(den) + abs(fv) * 4
            elif kind == 'snr':
                num = sum((mc - m) ** 2 for mc in means) / K
                den = sum((Fraction(s2, k) if exact else s2 / k) - mc * mc for k, mc, s2 in zip(cnt, means, sq)) / K
                if den == 0:
                    undef[w, t] = True
                    continue
                v = num / den
                num_s = sum(2 * abs(float(mc - m)) * (abs(float(mc)) + absm) for mc in means) / K + float(num) * 4
                den_s = sum(float(s2) / k + float(mc * mc) for k, mc, s2 in zip(cnt, means, sq)) / K
                fv = float(v)
                sc = num_s / float(den) + abs(fv) * den_s / float(den) + abs(fv) * 4
            else:
                raise ValueError(kind)
            val[w, t] = float(v)
            scale[w, t] = sc
    return val, scale, undef


def welch_t(a, b):
    """(mean_a - mean_b) / sqrt(var_a/n_a + var_b/n_b), population variances, per column."""
    a, b = np.asarray(a), np.asarray(b)
    T = a.shape[1]
    val = np.full(T, np.nan)
    scale = np.zeros(T)
    undef = np.zeros(T, dtype=bool)
    exact = is_integral(a) and is_integral(b)
    A = _ints(a).astype(object) if exact else a.astype(LD)
    B = _ints(b).astype(object) if exact else b.astype(LD)
    na, nb = a.shape[0], b.shape[0]
    sa, sb, qa, qb = A.sum(0), B.sum(0), (A * A).sum(0), (B * B).sum(0)
    for t in range(T):
        if exact:
            ma, mb = Fraction(int(sa[t]), na), Fraction(int(sb[t]), nb)
            va, vb = Fraction(int(qa[t]), na) - ma * ma, Fraction(int(qb[t]), nb) - mb * mb
        else:
            ma, mb = sa[t] / na, sb[t] / nb
            ac, bc = A[:, t] - ma, B[:, t] - mb
            va, vb = (ac * ac).sum() / na, (bc * bc).sum() / nb
        den2 = va / na + vb / nb
        if den2 == 0:
            undef[t] = True
            continue
        d = math.sqrt(float(den2))
        v = float(ma - mb) / d
        val[t] = v
        den_s = (float(qa[t]) / na + float(ma * ma)) / na + (float(qb[t]) / nb + float(mb * mb)) / nb
        scale[t] = (abs(float(ma)) + abs(float(mb))) / d + abs(v) * (den_s / float(den2) + 4)
    return val, scale, undef


def mutual_information(x, data, classes, edges):
    """MI (nats) between the histogram bin of each sample column and the class of each data column -> (W, T).

    Bin b holds edges[b] <= v < edges[b+1], the last bin includes the last edge, samples outside are discarded
    (numpy.histogram semantics on the configured edges); traces with an undeclared value are discarded.
    """
    x, data = np.asarray(x), np.asarray(data)
    edges = [float(e) for e in edges]
    nb = len(edges) - 1
    W, T = data.shape[1], x.shape[1]
    val = np.zeros((W, T))
    cls_index = {int(c): i for i, c in enumerate(classes)}
    bins = np.full(x.shape, -1, dtype=int)
    for i in range(x.shape[0]):
        for t in range(T):
            v = float(x[i, t])
            if v < edges[0] or v > edges[-1] or math.isnan(v):
                continue
            if v == edges[-1]:
                bins[i, t] = nb - 1
                continue
            lo, hi = 0, nb          # largest b with edges[b] <= v
            while hi - lo > 1:
                mid = (lo + hi) // 2
                if edges[mid] <= v:
                    lo = mid
                else:
                    hi = mid
            bins[i, t] = lo
    for w in range(W):
        ci = np.array([cls_index.get(int(v), -1) for v in data[:, w]])
        for t in range(T):
            joint = {}
            for i in range(x.shape[0]):
                if ci[i] >= 0 and bins[i, t] >= 0:
                    joint[(bins[i, t], ci[i])] = joint.get((bins[i, t], ci[i]), 0) + 1
            n = sum(joint.values())
            if n == 0:
                val[w, t] = 0.0
                continue
            pb, pc = {}, {}
            for (b, c), k in joint.items():
                pb[b] = pb.get(b, 0) + k
                pc[c] = pc.get(c, 0) + k
            hb = -math.fsum(k / n * math.log(k / n) for k in pb.values())
            hbv = -math.fsum(k / n * math.log(k / pc[c]) for (b, c), k in joint.items())
            val[w, t] = hb - hbv
    return val, bins


def template_build(x, values, classes):
    """class means (K, T) and pooled covariance = average over the declared classes of unbiased within-class
    covariances (classes with < 2 traces are flagged: their covariance is undefined)."""
    x = np.asarray(x)
    T = x.shape[1]
    exact = is_integral(x)
    means = np.full((len(classes), T), np.nan)
    small = []
    pooled = [[Fraction(0) if exact else LD(0) for _ in range(T)] for _ in range(T)]
    for i, c in enumerate(classes):
        m = values == c
        k = int(m.sum())
        if k == 0:
            small.append(i)
            continue
        xs = _ints(x[m]).astype(object) if exact else x[m].astype(LD)
        s = xs.sum(0)
        mean = [Fraction(int(v), k) if exact else v / k for v in s]
        means[i] = [float(v) for v in mean]
        if k < 2:
            small.append(i)
            continue
        sxx = xs.T.dot(xs)
        for a in range(T):
            for b in range(T):
                cov = ((Fraction(int(sxx[a, b])) if exact else sxx[a, b]) - k * mean[a] * mean[b]) / (k - 1)
                pooled[a][b] += cov
    pooled = np.array([[float(v / len(classes)) for v in row] for row in pooled])
    return means, pooled, small
