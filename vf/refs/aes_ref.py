"""Independent AES (FIPS-197) from first principles, recording every state."""
def xt(a): a<<=1; return (a^0x11b)&0xff if a&0x100 else a
def gmul(a,b):
    r=0
    while b:
        if b&1: r^=a
        a=xt(a); b>>=1
    return r
def ginv(a):
    if a==0: return 0
    r=1
    for _ in range(254): r=gmul(r,a)
    return r
def rotl8(x,s): return ((x<<s)|(x>>(8-s)))&0xff
SB=[0]*256
for a in range(256):
    b=ginv(a); SB[a]=b^rotl8(b,1)^rotl8(b,2)^rotl8(b,3)^rotl8(b,4)^0x63
ISB=[0]*256
for a in range(256): ISB[SB[a]]=a
# state as list of 16 bytes, column-major: index = 4*col + row (FIPS input order)
def sub(s): return [SB[x] for x in s]
def isub(s): return [ISB[x] for x in s]
def shr(s): return [s[4*((c+r)%4)+r] for c in range(4) for r in range(4)]
def ishr(s): return [s[4*((c-r)%4)+r] for c in range(4) for r in range(4)]
def mixc(col,m): return [gmul(m[0],col[(0+r)%4])^gmul(m[1],col[(1+r)%4])^gmul(m[2],col[(2+r)%4])^gmul(m[3],col[(3+r)%4]) for r in range(4)]
def mix(s): return [v for c in range(4) for v in mixc(s[4*c:4*c+4],[2,3,1,1])]
def imix(s): return [v for c in range(4) for v in mixc(s[4*c:4*c+4],[14,11,13,9])]
def ark(s,k): return [a^b for a,b in zip(s,k)]
def expand(key):
    nk=len(key)//4; nr=nk+6; w=[list(key[4*i:4*i+4]) for i in range(nk)]; rc=1
    for i in range(nk,4*(nr+1)):
        t=list(w[i-1])
        if i%nk==0:
            t=t[1:]+t[:1]; t=[SB[x] for x in t]; t[0]^=rc; rc=xt(rc)
        elif nk>6 and i%nk==4: t=[SB[x] for x in t]
        w.append([a^b for a,b in zip(w[i-nk],t)])
    return [sum(w[4*r:4*r+4],[]) for r in range(nr+1)]
def enc_states(pt,key):
    rk=expand(key); nr=len(rk)-1; st={}; s=list(pt)
    for step in range(3): st[(0,step)]=list(s)
    s=ark(s,rk[0]); st[(0,3)]=list(s)
    for r in range(1,nr+1):
        s=sub(s); st[(r,0)]=list(s); s=shr(s); st[(r,1)]=list(s)
        if r<nr: s=mix(s)
        st[(r,2)]=list(s); s=ark(s,rk[r]); st[(r,3)]=list(s)
    return st,s
def dec_states(ct,key):
    rk=expand(key)[::-1]; nr=len(rk)-1; st={}; s=list(ct)
    for r in range(0,nr+1):
        s=ark(s,rk[r]); st[(r,0)]=list(s)
        if 0<r<nr: s=imix(s)
        st[(r,1)]=list(s)
        if r<nr: s=ishr(s)
        st[(r,2)]=list(s)
        if r<nr: s=isub(s)
        st[(r,3)]=list(s)
    return st,s
