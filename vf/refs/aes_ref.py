"""Independent AES (FIPS-197) from first principles, recording every state."""
def xt(a): a<<=1; return (a^0x11b)&0xff if a&0x100 else a
def gmul(a,b):
    r=0
    while b:
        if b&1: r^=a
        a=xt(a); b>>=1
    return r
def ginv(a):
    if a==0: return 0
    r=1
    for _ in range(254): r=gmul(r,a)
    return r
def rotl8(x,s): return ((x<<s)|(x>>(8-s)))&0xff
SB=[0]*256
for a in range(256):
    b=ginv(a); SB[a]=b^rotl8(b,1)^rotl8(b,2)^rotl8(b,3)^rotl8(b,4)^0x63
ISB=[0]*256
for a in range(256): ISB[SB[a]]=a
# state as list of 16 bytes, column-major: index = 4*col + row (FIPS input order)
def sub(s): return [SB[x] for x in s]
def isub(s): return [ISB[x] for x in s]
def shr(s): return [s[4*((c+r)%4)+r] for c in range(4) for r in range(4)]
def ishr(s): return [s[4*((c-r)%4)+r] for c in range(4) for r in range(4)]
def mixc(col,m): return [gmul(m[0],col[(0+r)%4])^gmul(m[1],col[(1+r)%4])^gmul(m[2],col[(2+r)%4])^gmul(m[3],col[(3+r)%4]) for r in range(4)]
def mix(s): return [v for c in range(4) for v in mixc(s[4*c:4*c+4],[2,3,1,1])]
def imix(s): return [v for c in range(4) for v in mixc(s[4*c:4*c+4],[14,11,13,9])]
def ark(s,k): return [a^b for a,b in zip(s,k)]
def expand(key):
    nk=len(key)//4; nr=nk+6; w=[list(key[4*i:4*i+4]) for i in range(nk)]; rc=1
    for i in range(nk,4*(nr+1)):
        t=list(w[i-1])
        if i%nk==0:
            t=t[1:]+t[:1]; t=[SB[x] for x in t]; t[0]^=rc; rc=xt(rc)
        elif nk>6 and i%nk==4: t=[SB[x] for x in t]
        w.append([a^b for a,b in zip(w[i-nk],t)])
    return [sum(w[4*r:4*r+4],[]) for r in range(nr+1)]
def enc_states(pt,key):
    rk=expand(key); nr=len(rk)-1; st={}; s=list(pt)
    for step in range(3): st[(0,step)]=list(s)
    s=ark(s,rk[0]); st[(0,3)]=list(s)
    for r in range(1,nr+1):
        s=sub(s); st[(r,0)]=list(s); s=shr(s); st[(r,1)]=list(s)
        if r<nr: s=mix(s)
        st[(r,2)]=list(s); s=ark(s,rk[r]); st[(r,3)]=list(s)
    return st,s
def dec_states(ct,key):
    rk=expand(key)[::-1]; nr=len(rk)-1; st={}; s=list(ct)
    for r in range(0,nr+1):
        s=ark(s,rk[r]); st[(r,0)]=list(s)
        if 0<r<nr: s=imix(s)
        st[(r,1)]=list(s)
        if r<nr: s=ishr(s)
        st[(r,2)]=list(s)
        if r<nr: s=isub(s)
        st[(r,3)]=list(s)
    return st,s


# ---- speed-up: multiplication tables *derived* from gmul above (nothing copied from the subject) ----
_MUL = {m: [gmul(m, x) for x in range(256)] for m in (1, 2, 3, 9, 11, 13, 14)}


def mixc(col, m):  # noqa: F811  (table-driven version of the definition above; checked against it in self_test)
    t0, t1, t2, t3 = _MUL[m[0]], _MUL[m[1]], _MUL[m[2]], _MUL[m[3]]
    return [t0[col[(0 + r) % 4]] ^ t1[col[(1 + r) % 4]] ^ t2[col[(2 + r) % 4]] ^ t3[col[(3 + r) % 4]] for r in range(4)]


def _mixc_slow(col, m):
    return [gmul(m[0], col[(0 + r) % 4]) ^ gmul(m[1], col[(1 + r) % 4]) ^ gmul(m[2], col[(2 + r) % 4]) ^ gmul(m[3], col[(3 + r) % 4]) for r in range(4)]


def encrypt(pt, key):
    return enc_states(pt, key)[1]


def decrypt(ct, key):
    return dec_states(ct, key)[1]


def inv_expand_128(round_key, r):
    """Master key of AES-128 from round key r (inverse of the schedule, written independently of expand)."""
    w = [list(round_key[4 * i:4 * i + 4]) for i in range(4)]
    rc = [1]
    for _ in range(10):
        rc.append(xt(rc[-1]))
    for rr in range(r, 0, -1):
        w3 = [a ^ b for a, b in zip(w[3], w[2])]
        w2 = [a ^ b for a, b in zip(w[2], w[1])]
        w1 = [a ^ b for a, b in zip(w[1], w[0])]
        t = w3[1:] + w3[:1]
        t = [SB[x] for x in t]
        t[0] ^= rc[rr - 1]
        w0 = [a ^ b for a, b in zip(w[0], t)]
        w = [w0, w1, w2, w3]
    return sum(w, [])


def self_test():
    """FIPS-197 appendix C vectors, appendix A.1 schedule end, table/definition agreement, optional pycryptodome."""
    h = bytes.fromhex
    pt = list(h('00112233445566778899aabbccddeeff'))
    vec = [('000102030405060708090a0b0c0d0e0f', '69c4e0d86a7b0430d8cdb78070b4c55a'),
           ('000102030405060708090a0b0c0d0e0f1011121314151617', 'dda97ca4864cdfe06eaf70a0ec0d7191'),
           ('000102030405060708090a0b0c0d0e0f101112131415161718191a1b1c1d1e1f', '8ea2b7ca516745bfeafc49904b496089')]
    for k, c in vec:
        if encrypt(pt, list(h(k))) != list(h(c)) or decrypt(list(h(c)), list(h(k))) != pt:
            return f'FIPS-197 appendix C vector failed for key {k}'
    if SB[0x53] != 0xed or SB[0] != 0x63 or sorted(SB) != list(range(256)):
        return 'S-box derivation failed'
    if expand(list(h('2b7e151628aed2a6abf7158809cf4f3c')))[10] != list(h('d014f9a8c9ee2589e13f0cc8b6630ca6')):
        return 'FIPS-197 appendix A.1 key expansion failed'
    for col in ([0xdb, 0x13, 0x53, 0x45], [1, 2, 3, 4], [0xff, 0, 0x80, 0x1b]):
        for m in ([2, 3, 1, 1], [14, 11, 13, 9]):
            if mixc(col, m) != _mixc_slow(col, m):
                return 'table-driven mix column differs from its definition'
    if mixc([0xdb, 0x13, 0x53, 0x45], [2, 3, 1, 1]) != [0x8e, 0x4d, 0xa1, 0xbc]:
        return 'mix column known answer failed'
    k128 = list(h('2b7e151628aed2a6abf7158809cf4f3c'))
    for r in range(11):
        if inv_expand_128(expand(k128)[r], r) != k128:
            return 'inverse key schedule self-check failed'
    try:
        from Crypto.Cipher import AES
        import os
        for n in (16, 24, 32):
            for _ in range(4):
                k, p = os.urandom(n), os.urandom(16)
                if bytes(encrypt(list(p), list(k))) != AES.new(k, AES.MODE_ECB).encrypt(p):
                    return 'reference disagrees with pycryptodome'
    except ImportError:
        pass
    return None
