"""Independent DES (FIPS 46-3) working on python ints, recording round values."""
IP=[58,50,42,34,26,18,10,2,60,52,44,36,28,20,12,4,62,54,46,38,30,22,14,6,64,56,48,40,32,24,16,8,
    57,49,41,33,25,17,9,1,59,51,43,35,27,19,11,3,61,53,45,37,29,21,13,5,63,55,47,39,31,23,15,7]
FP=[40,8,48,16,56,24,64,32,39,7,47,15,55,23,63,31,38,6,46,14,54,22,62,30,37,5,45,13,53,21,61,29,
    36,4,44,12,52,20,60,28,35,3,43,11,51,19,59,27,34,2,42,10,50,18,58,26,33,1,41,9,49,17,57,25]
E=[32,1,2,3,4,5,4,5,6,7,8,9,8,9,10,11,12,13,12,13,14,15,16,17,16,17,18,19,20,21,20,21,22,23,24,25,24,25,26,27,28,29,28,29,30,31,32,1]
P=[16,7,20,21,29,12,28,17,1,15,23,26,5,18,31,10,2,8,24,14,32,27,3,9,19,13,30,6,22,11,4,25]
PC1=[57,49,41,33,25,17,9,1,58,50,42,34,26,18,10,2,59,51,43,35,27,19,11,3,60,52,44,36,
     63,55,47,39,31,23,15,7,62,54,46,38,30,22,14,6,61,53,45,37,29,21,13,5,28,20,12,4]
PC2=[14,17,11,24,1,5,3,28,15,6,21,10,23,19,12,4,26,8,16,7,27,20,13,2,41,52,31,37,47,55,30,40,51,45,33,48,44,49,39,56,34,53,46,42,50,36,29,32]
SHIFTS=[1,1,2,2,2,2,2,2,1,2,2,2,2,2,2,1]
S=[
[[14,4,13,1,2,15,11,8,3,10,6,12,5,9,0,7],[0,15,7,4,14,2,13,1,10,6,12,11,9,5,3,8],[4,1,14,8,13,6,2,11,15,12,9,7,3,10,5,0],[15,12,8,2,4,9,1,7,5,11,3,14,10,0,6,13]],
[[15,1,8,14,6,11,3,4,9,7,2,13,12,0,5,10],[3,13,4,7,15,2,8,14,12,0,1,10,6,9,11,5],[0,14,7,11,10,4,13,1,5,8,12,6,9,3,2,15],[13,8,10,1,3,15,4,2,11,6,7,12,0,5,14,9]],
[[10,0,9,14,6,3,15,5,1,13,12,7,11,4,2,8],[13,7,0,9,3,4,6,10,2,8,5,14,12,11,15,1],[13,6,4,9,8,15,3,0,11,1,2,12,5,10,14,7],[1,10,13,0,6,9,8,7,4,15,14,3,11,5,2,12]],
[[7,13,14,3,0,6,9,10,1,2,8,5,11,12,4,15],[13,8,11,5,6,15,0,3,4,7,2,12,1,10,14,9],[10,6,9,0,12,11,7,13,15,1,3,14,5,2,8,4],[3,15,0,6,10,1,13,8,9,4,5,11,12,7,2,14]],
[[2,12,4,1,7,10,11,6,8,5,3,15,13,0,14,9],[14,11,2,12,4,7,13,1,5,0,15,10,3,9,8,6],[4,2,1,11,10,13,7,8,15,9,12,5,6,3,0,14],[11,8,12,7,1,14,2,13,6,15,0,9,10,4,5,3]],
[[12,1,10,15,9,2,6,8,0,13,3,4,14,7,5,11],[10,15,4,2,7,12,9,5,6,1,13,14,0,11,3,8],[9,14,15,5,2,8,12,3,7,0,4,10,1,13,11,6],[4,3,2,12,9,5,15,10,11,14,1,7,6,0,8,13]],
[[4,11,2,14,15,0,8,13,3,12,9,7,5,10,6,1],[13,0,11,7,4,9,1,10,14,3,5,12,2,15,8,6],[1,4,11,13,12,3,7,14,10,15,6,8,0,5,9,2],[6,11,13,8,1,4,10,7,9,5,0,15,14,2,3,12]],
[[13,2,8,4,6,15,11,1,10,9,3,14,5,0,12,7],[1,15,13,8,10,3,7,4,12,5,6,11,0,14,9,2],[7,11,4,1,9,12,14,2,0,6,10,13,15,3,5,8],[2,1,14,7,4,10,8,13,15,12,9,0,3,5,6,11]]]
def bits(bs): return [(b>>(7-i))&1 for b in bs for i in range(8)]
def perm(b,t): return [b[i-1] for i in t]
def inv(t,n):
    r=[0]*n
    for o,i in enumerate(t): r[i-1]=o+1
    return r
PINV=inv(P,32)
def pack(b,w): return [int(''.join(map(str,b[i:i+w])),2) for i in range(0,len(b),w)]
def round_keys(key):
    cd=perm(bits(key),PC1); c,d=cd[:28],cd[28:]; ks=[]
    for s in SHIFTS:
        c=c[s:]+c[:s]; d=d[s:]+d[:s]; ks.append(pack(perm(c+d,PC2),6))
    return ks
def sbox_layer(six): # list of 8 six-bit ints -> 8 nibbles
    out=[]
    for i,v in enumerate(six):
        row=((v>>5)&1)*2+(v&1); col=(v>>1)&0xF; out.append(S[i][row][col])
    return out
def des_trace(block, rks, start_lr=None):
    """rks: 16 round keys (each 8 six-bit ints) in the order applied. Returns dict of recorded values."""
    lr = perm(bits(block),IP) if start_lr is None else start_lr
    L,R=lr[:32],lr[32:]; rec=[]
    for r in range(16):
        er=pack(perm(R,E),6); x=[a^b for a,b in zip(er,rks[r])]; so=sbox_layer(x)
        sb=[ (n>>(3-i))&1 for n in so for i in range(4)]; f=perm(sb,P)
        newR=[a^b for a,b in zip(L,f)]
        rec.append(dict(L=L,R=R,ER=er,X=x,S=so,F=f,newR=newR))
        L,R=R,newR
    pre=R+L  # R16 L16
    return rec,pre,pack(perm(pre,FP),8)
def stop_value(rec,pre,ct,r,step):
    d=rec[r]; L,R,nR=d['L'],d['R'],d['newR']
    if step==0: return pack(L+R,8)
    if step==1: return d['ER']
    if step==2: return d['X']
    if step==3: return d['S']
    if step==4: return pack(d['F'],8)+[0,0,0,0]
    if step==5: return pack(nR+R,8)
    if step==6: return pack(R+nR,8)
    if step==7: return pack(perm(nR,PINV),4)
    if step==8: return pack(perm([a^b for a,b in zip(R,nR)],PINV),4)
    if step==9: return ct if r==15 else pack(R+nR,8)


# ---- helpers on top of the definitions above ----
def unbits(b):
    return pack(b, 8)


def split_master(key):
    """8/16/24-byte master key -> list of 1 or 3 per-pass 8-byte keys in E-D-E order (k3 = k1 for two-key)."""
    key = list(key)
    if len(key) == 8:
        return [key]
    if len(key) == 16:
        return [key[:8], key[8:16], key[:8]]
    return [key[:8], key[8:16], key[16:24]]


def split_expanded(key):
    """128/256/384 bytes -> per-pass lists of 16 round keys (8 six-bit words each)."""
    key = list(key)
    per = [[key[p * 128 + r * 8: p * 128 + r * 8 + 8] for r in range(16)] for p in range(len(key) // 128)]
    if len(per) == 2:
        per.append(per[0])
    return per


def passes(key, mode):
    """Round-key lists in the order they are applied, for each DES pass of (T)DES in the given mode."""
    per = split_expanded(key) if len(key) >= 128 else [round_keys(k) for k in split_master(key)]
    if len(per) == 1:
        return [per[0] if mode == 'encrypt' else per[0][::-1]]
    if mode == 'encrypt':
        return [per[0], per[1][::-1], per[2]]
    return [per[2][::-1], per[1], per[0][::-1]]


def tdes_trace(block, key, mode):
    """Returns [(rec, pre, out)] per pass; pass p+1 starts from the pre-output R16|L16 of pass p used as L0|R0."""
    res, start = [], None
    for rks in passes(key, mode):
        rec, pre, out = des_trace(block, rks, start_lr=start)
        res.append((rec, pre, out))
        start = pre
    return res


def crypt(block, key, mode='encrypt'):
    return tdes_trace(block, key, mode)[-1][2]


def self_test():
    h = bytes.fromhex
    key, pt, ct = list(h('133457799BBCDFF1')), list(h('0123456789ABCDEF')), list(h('85E813540F0AB405'))
    if crypt(pt, key) != ct or crypt(ct, key, 'decrypt') != pt:
        return 'classic DES worked example failed'
    if round_keys(key)[0] != [0b000110, 0b110000, 0b001011, 0b101111, 0b111111, 0b000111, 0b000001, 0b110010]:
        return 'K1 of the worked example failed'
    if sorted(IP) != list(range(1, 65)) or perm(perm(list(range(64)), IP), FP) != list(range(64)):
        return 'IP/FP are not inverse permutations'
    if perm(perm(list(range(32)), P), PINV) != list(range(32)):
        return 'PINV is not the inverse of P'
    # NIST SP 800-17 style known answers (variable plaintext / variable key first entries)
    if crypt(list(h('8000000000000000')), list(h('0101010101010101'))) != list(h('95F8A5E5DD31D900')):
        return 'variable plaintext known answer failed'
    if crypt(list(h('0000000000000000')), list(h('8001010101010101'))) != list(h('95A8D72813DAA94D')):
        return 'variable key known answer failed'
    try:
        from Crypto.Cipher import DES, DES3
        import os
        for _ in range(6):
            k, p = os.urandom(8), os.urandom(8)
            if bytes(crypt(list(p), list(k))) != DES.new(k, DES.MODE_ECB).encrypt(p):
                return 'DES reference disagrees with pycryptodome'
        done = 0
        while done < 6:
            k = os.urandom(24 if done % 2 else 16)
            p = os.urandom(8)
            try:
                c = DES3.new(k, DES3.MODE_ECB)
            except ValueError:   # degenerate key refused by pycryptodome
                continue
            if bytes(crypt(list(p), list(k))) != c.encrypt(p) or bytes(crypt(list(p), list(k), 'decrypt')) != c.decrypt(p):
                return 'TDES reference disagrees with pycryptodome'
            done += 1
    except ImportError:
        pass
    return None
