"""C08 - convergence traces are the attack scores on successive prefixes of the traces.

Monitor: a recorder wrapped around `process` of the attack instance the harness created reads public state
only - (processed_traces, number of convergence columns) at every batch boundary and after each run() - so the
trace count each column belongs to is recovered without looking at private fields: a column that appeared
between two observations belongs to the later processed_traces.
Oracles: (a) each column == scores of a FRESH attack of the same class (no convergence) run on exactly the
first p_j traces (exact regime: bit-for-bit; template matching: Mahalanobis formula under the published
profile, tolerance as in C14); (b) trace specification over the points: strictly increasing, each either
>= step after the previous regular point or the last processed count of a run (remainder), at most one column
per observation interval, last point == all traces processed, last column == final scores; (c) final results /
scores equal those of a twin attack run on the same containers without convergence.
"""
import numpy as np

from .. import core, gen, tol
from ..monitors import CONTROL

ID = 'C08'
LEVEL = 'exploration'
WORKERS = {'quick': 12, 'thorough': 14}
BUDGET_S = {'quick': 90, 'thorough': 600}
NUMBA_THREADS = 2
REQUIRED_COUNTERS = ['attacks_with_convergence', 'columns_vs_prefix_attack', 'points_checked', 'last_column_vs_scores', 'final_vs_no_convergence', 'observations',
                     'step_larger_than_set', 'step_smaller_than_batch', 'step_not_dividing', 'multi_run_sequences', 'remainder_points', 'alignment_corner_cases', 'refused_runs_between']
CLASSES = ['CPAAttack', 'DPAAttack', 'ANOVAAttack', 'NICVAttack', 'SNRAttack', 'MIAAttack', 'TemplateAttack', 'TemplateDPAAttack']
CHEAP = ['CPAAttack', 'DPAAttack']
RULE = ('a case = (attack class in 8, N in 1..120, convergence_step in 1..150 (smaller / equal / larger than the batch size and than N, dividing or not), '
        'container batch size 1..150, 1-3 successive run() calls, precision); every convergence column is compared with a fresh attack on its prefix '
        '(all columns for CPA / DPA / templates, first + last + 3 sampled ones for the partitioned classes); non-trivial = at least one column compared; '
        'distinct by all of these')
ASSUMPTIONS = ['exact regime (small integer samples / intermediate values) for CPA / DPA / ANOVA / NICV / SNR / MIA: columns compared bit-for-bit',
               'template attacks: column compared with 10 - mean squared Mahalanobis distance under the published profile, rtol 2e-5*cond (float32) / 1e-10*cond (float64)',
               'no upper bound on the gap between points is asserted (the property states none)']


def setup():
    if not CONTROL.install():
        raise core.Inconclusive('kernel-choice hook not available')


def cases(tier, seed):
    out = []
    k = 0
    for klass in CLASSES:
        for rel in ('step<batch', 'step=batch', 'step>batch', 'step>N', 'multi'):
            out.append(dict(gen='conv', klass=klass, rel=rel, sub=core.subseed('C08', seed, k), must=True))
            k += 1
    for klass in ('CPAAttack', 'DPAAttack', 'TemplateAttack'):
        for rel in ('aligned_total', 'run_ends_on_point', 'midstep_then_aligned'):
            for r in range(6 if klass == 'CPAAttack' else 2):
                out.append(dict(gen='conv', klass=klass, rel=rel, sub=core.subseed('C08a', seed, klass, rel, r), must=True))
    # a run that is refused (container with another trace length) between two accepted runs adds no column and changes none
    for klass in ('CPAAttack', 'DPAAttack', 'SNRAttack', 'MIAAttack'):
        for r in range(3):
            out.append(dict(gen='conv', klass=klass, rel='refused_between', sub=core.subseed('C08rb', seed, klass, r), must=True))
    rs = np.random.default_rng(core.subseed('C08r', seed))
    n_rand = 500 if tier == 'quick' else 14000
    w = np.array([6 if c in CHEAP else (3 if c.startswith('Template') else 1) for c in CLASSES], dtype=float)
    w /= w.sum()
    for j in range(n_rand):
        out.append(dict(gen='conv', klass=CLASSES[int(rs.choice(len(CLASSES), p=w))], rel=['step<batch', 'step=batch', 'step>batch', 'step>N', 'multi', 'any', 'any', 'aligned_total', 'run_ends_on_point', 'midstep_then_aligned', 'refused_between'][int(rs.integers(11))],
                        sub=int(rs.integers(2 ** 62))))
    return out


def run_case(case):
    import scared
    t = core.Tally()
    for c in REQUIRED_COUNTERS:
        t.count(c, 0)
    rng = gen.rng_of(case['sub'])
    klass, rel = case['klass'], case['rel']
    template = klass.startswith('Template')
    cheap = klass in CHEAP or template
    N = int(rng.choice([1, 2, 3, 5, 8, 13, 21, 40, 77, 120])) if cheap else int(rng.choice([2, 5, 9, 21, 40, 77]))
    T = int(rng.integers(1, 5))
    G = int(rng.integers(2, 5))
    W = int(rng.integers(1, 3))
    bs = int(rng.integers(1, 151)) if rng.random() < 0.4 else int(rng.integers(1, max(2, N + 2)))
    if rel == 'step<batch':
        bs = max(bs, 2)
        step = int(rng.integers(1, bs))
    elif rel == 'step=batch':
        step = bs
    elif rel == 'step>batch':
        step = bs + int(rng.integers(1, 20))
    elif rel == 'step>N':
        step = N + int(rng.integers(1, 30))
    else:
        step = int(rng.integers(1, 151)) if rng.random() < 0.3 else int(rng.integers(1, N + 3))
    nruns = int(rng.choice([2, 3])) if rel == 'multi' else int(rng.choice([1, 1, 1, 2]))
    refuse = rel == 'refused_between' and not klass.startswith('Template')
    if refuse:
        N = max(N, 5)
        nruns = int(rng.choice([1, 2, 2, 3]))
        step = int(rng.integers(1, N + 2))
    if nruns > N:
        nruns = 1
    cuts = None
    if rel in ('aligned_total', 'run_ends_on_point', 'midstep_then_aligned'):
        # alignment corner cases: the total (or a run) is an exact multiple of the step while the batches are not aligned on it
        step = int(rng.integers(2, 31))
        mult = int(rng.integers(1, max(2, 120 // step) + 1))
        N = min(step * mult, 120) // step * step
        ks = [kk for kk in range(2, step + 1) if step % kk]          # step // batch = kk with a remainder: batches of int(step / kk) miss the multiples of the step
        if ks and rng.random() < 0.7:
            kk = int(ks[int(rng.integers(len(ks)))])
            bs = max(1, step // kk)
        else:
            bs = int(rng.integers(1, step + 3))
        if rel == 'aligned_total':
            nruns = 1
        elif rel == 'run_ends_on_point':
            if N // step < 2:
                N = 2 * step
            first = step * int(rng.integers(1, N // step))
            cuts = [0, first, N]
            nruns = 2
        else:
            if N < 2:
                N = 2 * step
            first = int(rng.integers(1, N))
            cuts = [0, first, N]
            nruns = 2
    if cuts is None:
        cuts = [0] + (sorted(rng.choice(np.arange(1, N), size=nruns - 1, replace=False).tolist()) if nruns > 1 else []) + [N]
    precision = ['float32', 'float64'][int(rng.integers(2))]
    if step > N:
        t.count('step_larger_than_set')
    if step < bs:
        t.count('step_smaller_than_batch')
    if N % step:
        t.count('step_not_dividing')
    if nruns > 1:
        t.count('multi_run_sequences')
    if rel in ('aligned_total', 'run_ends_on_point', 'midstep_then_aligned'):
        t.count('alignment_corner_cases')
    info = dict(klass=klass, N=N, T=T, guesses=G, words=W, batch=bs, step=step, runs=cuts, precision=precision)

    if template:
        K = int(rng.choice([2, 3, 4]))
        means = rng.integers(-12, 13, (K, T)).astype(float)
        per = T + 6
        bvals = np.tile(np.arange(K), per)
        bsamp = means[bvals] + rng.normal(0, 1.5, (len(bvals), T))
        bths = scared.traces.read_ths_from_ram(samples=bsamp, v=bvals.reshape(-1, 1).astype('uint8'))
        samples = (means[rng.integers(0, K, N)] + rng.normal(0, 2, (N, T))).astype(['float32', 'float64'][int(rng.integers(2))])
        hyp = rng.integers(0, K, (N, G)).astype('uint8')
        ths = scared.traces.read_ths_from_ram(samples=samples, h=hyp)

        @scared.reverse_selection_function
        def rsf(v):
            return v

        @scared.attack_selection_function(guesses=range(G), words=0)
        def asf(h, guesses):
            return h[:, :, None]

        def make(conv):
            cb = scared.Container(bths)
            if klass == 'TemplateAttack':
                a = scared.TemplateAttack(container_building=cb, reverse_selection_function=rsf, model=scared.Value(), partitions=list(range(K)), precision=precision, convergence_step=conv)
            else:
                a = scared.TemplateDPAAttack(container_building=cb, reverse_selection_function=rsf, selection_function=asf, model=scared.Value(), partitions=list(range(K)),
                                             precision=precision, convergence_step=conv)
            a.build()
            return a
    else:
        samples = rng.integers(0, 4, (N, T)).astype(['uint8', 'int16', 'float32', 'float64'][int(rng.integers(4))])
        v = rng.integers(0, 256, (N, W)).astype('uint8')
        ths = scared.traces.read_ths_from_ram(samples=samples, v=v)
        bit = int(rng.integers(8))
        disc = [scared.maxabs, scared.nanmax, scared.abssum][int(rng.integers(3))]

        mia_precision = [precision, 'uint32', 'uint16', 'float64'][int(rng.integers(4))]
        if klass == 'MIAAttack':
            info['mia_precision'] = mia_precision

        def make(conv):
            @scared.attack_selection_function(guesses=range(G))
            def sf(v, guesses):
                out = np.empty((v.shape[0], len(guesses), v.shape[1]), dtype='uint8')
                for i, g in enumerate(guesses):
                    out[:, i, :] = v ^ np.uint8((int(g) * 29 + 1) % 256)
                return out
            kw = dict(selection_function=sf, model=scared.Monobit(bit) if klass == 'DPAAttack' else scared.HammingWeight(), discriminant=disc, precision=precision,
                      convergence_step=conv)
            if klass[:3] in ('ANO', 'NIC', 'SNR', 'MIA'):
                kw['partitions'] = list(range(9))
            if klass == 'MIAAttack':
                kw['bin_edges'] = np.linspace(-0.5, 3.5, 5)
                kw['precision'] = mia_precision         # MIA counts: an integer accumulator dtype is a documented option
            return getattr(scared, klass)(**kw)

    a = make(step)
    obs = []            # (run index, processed_traces, number of columns) at every batch boundary / end of run
    orig_process = a.process

    def ncols():
        return 0 if a.convergence_traces is None else int(a.convergence_traces.shape[-1])

    state = dict(run=0)

    def spy_process(batch):
        obs.append((state['run'], int(a.processed_traces), ncols(), 'before_batch'))
        return orig_process(batch)
    a.process = spy_process
    twin = make(None)
    try:
        scared.set_batch_size(bs)
        for r in range(nruns):
            state['run'] = r
            a.run(scared.Container(ths[cuts[r]:cuts[r + 1]]))
            obs.append((r, int(a.processed_traces), ncols(), 'after_run'))
            twin.run(scared.Container(ths[cuts[r]:cuts[r + 1]]))
            if refuse and (r < nruns - 1 or rng.random() < 0.5):
                before = None if a.convergence_traces is None else np.array(a.convergence_traces)
                m = int(rng.integers(1, 2 * bs + 2))
                bad = scared.traces.read_ths_from_ram(samples=rng.integers(0, 4, (m, T + 1)).astype(samples.dtype), v=rng.integers(0, 256, (m, W)).astype('uint8'))
                try:
                    a.run(scared.Container(bad))
                    accepted = True
                except Exception:
                    accepted = False
                if accepted:
                    raise core.Inconclusive('a container with another trace length was accepted: the refused-run scenario does not apply')
                t.count('refused_runs_between')
                obs.append((r, int(a.processed_traces), ncols(), 'after_refused_run'))
                after = None if a.convergence_traces is None else np.array(a.convergence_traces)
                t.check((before is None and after is None) or (before is not None and after is not None and before.shape == after.shape and tol.same(before, after)),
                        'refused_run_changed_convergence_traces', lambda: dict(info, run=r, columns_before=None if before is None else before.shape[-1], columns_after=None if after is None else after.shape[-1]))
    finally:
        scared.set_batch_size(None)
    t.count('attacks_with_convergence')
    t.count('observations', len(obs))
    # ---- recover the points from the observations
    points, kinds = [], []
    prev_cols = 0
    for (r, pt, nc, what) in obs:
        added = nc - prev_cols
        if added < 0 or added > 1:
            t.check(False, 'more_than_one_column_per_interval', dict(info, observation=(r, pt, nc, what), previous_columns=prev_cols))
            return t.result()
        if added == 1:
            points.append(pt)
            kinds.append((r, what))
        prev_cols = nc
    conv = None if a.convergence_traces is None else np.array(a.convergence_traces)
    info['points'] = points
    # ---- specification on the points
    t.count('points_checked', len(points))
    t.check(all(b > a_ for a_, b in zip(points, points[1:])), 'points_not_strictly_increasing', info)
    run_ends = set(cuts[1:])
    last_regular = 0
    for p in points:
        if p - last_regular >= step:
            last_regular = p
        else:
            t.count('remainder_points')
            t.check(p in run_ends, 'point_closer_than_one_step', lambda: dict(info, point=p, previous_regular_point=last_regular))
    if not t.check(len(points) >= 1 and points[-1] == N, 'last_point_is_not_all_traces', info):
        return t.result()
    if not t.check(conv is not None and conv.shape[-1] == len(points) and conv.shape[:-1] == np.shape(a.scores), 'convergence_traces_shape',
                   lambda: dict(info, shape=None if conv is None else conv.shape, scores_shape=np.shape(a.scores))):
        return t.result()
    t.count('last_column_vs_scores')
    t.check(tol.same(conv[..., -1], a.scores), 'last_column_is_not_final_scores', lambda: dict(info, diff=tol.first_diff(conv[..., -1], a.scores)))
    # ---- final results unchanged by requesting convergence
    t.count('final_vs_no_convergence')
    if template:
        rt = (2e-5 if precision == 'float32' else 1e-10)
        okf = np.shape(a.scores) == np.shape(twin.scores) and bool(np.all(np.abs(np.asarray(a.scores, float) - np.asarray(twin.scores, float)) <= rt * (1 + np.abs(10 - np.asarray(twin.scores, float)))))
        t.check(okf, 'convergence_changed_final_scores', lambda: dict(info, diff=tol.first_diff(a.scores, twin.scores)))
    else:
        t.check(tol.same(a.results, twin.results), 'convergence_changed_final_results', lambda: dict(info, diff=tol.first_diff(a.results, twin.results)))
        t.check(tol.same(a.scores, twin.scores), 'convergence_changed_final_scores', lambda: dict(info, diff=tol.first_diff(a.scores, twin.scores)))
    # ---- every column equals a fresh attack on its prefix
    cols = list(range(len(points)))
    if not cheap and len(cols) > 5:
        cols = sorted(set([0, len(cols) - 1] + rng.choice(len(cols), 3, replace=False).tolist()))
    if template:
        M = np.asarray(a.pooled_covariance_inv, dtype=float)
        tm = np.asarray(a.templates, dtype=float)
        x = samples.astype(float)
        cond = float(np.linalg.cond(np.asarray(a.pooled_covariance, dtype=float)))
        rt = (2e-5 if precision == 'float32' else 1e-10) * max(cond, 1.0)
    for j in cols:
        p = points[j]
        t.count('columns_vs_prefix_attack')
        if template:
            if klass == 'TemplateAttack':
                cand = [np.full(p, i) for i in range(len(tm))]
            else:
                cand = [hyp[:p, g].astype(int) for g in range(G)]
            exp = np.array([10 - float(np.sum(((x[:p] - tm[ix]) @ M) * (x[:p] - tm[ix]))) / (T * p) for ix in cand])
            got = np.asarray(conv[..., j], dtype=float).ravel()
            ok = got.shape == exp.shape and bool(np.all(np.abs(got - exp) <= rt * (1 + np.abs(10 - exp))))
            t.check(ok, 'column_differs_from_prefix_scores', lambda: dict(info, column=j, prefix=p, got=got.tolist(), expected=exp.tolist()))
        else:
            f = make(None)
            f.run(scared.Container(ths[:p]))
            t.check(tol.same(conv[..., j], f.scores), 'column_differs_from_prefix_scores', lambda: dict(info, column=j, prefix=p, diff=tol.first_diff(conv[..., j], f.scores)))
    sig = f"{klass}|{N}|{T}|{bs}|{step}|{cuts}|{precision}|{G}|{W}"
    return t.result(sig=sig, sample=dict(case=case, derived=info))
