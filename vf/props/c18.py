"""C18 - preprocesses compute their definition row by row, without integer wrap-around.

Oracles (none re-uses scared):
  * combination preprocesses: naive pair enumeration of the documented pair set in the documented order; on
    integer-valued traces the operation is evaluated in exact python integers and rounded ONCE to the output dtype
    (IEEE multiply / subtract of exactly representable operands is correctly rounded, so this is bit-for-bit);
    on float traces with numpy scalars of the output dtype, pair by pair;
  * time-frequency operators: naive O(L^2) DFT / circular cross-correlation / Hartley in float64;
  * first-order ones: their formulas in exact integers or long double.
Monitors: output dtype contract ("promoted, at least float32"), read-only inputs (numpy refuses a write into the
caller's array when it happens), row-independence twins (row r alone, row r inside a permuted and an extended
batch) for every operator that is not a documented batch centring.
"""
import math

import numpy as np

from .. import core, gen

ID = 'C18'
LEVEL = 'exploration'
WORKERS = {'quick': 8, 'thorough': 14}
BUDGET_S = {'quick': 40, 'thorough': 300}
REQUIRED_COUNTERS = ['combination_entries', 'pair_sets:one_frame', 'pair_sets:distance', 'pair_sets:two_frames', 'pair_sets:same', 'timefreq_entries',
                     'first_order_entries', 'row_independence_rows', 'second_call_twins', 'extreme_value_cases', 'dtype_contracts']
RULE = ('a case = (operator in Product | Difference | AbsoluteDifference | CenteredProduct | Xcorr | WindowFFT | WindowFHT | MaxCorr | ConcatFFT | '
        'ConcatFHT | square | ToPower | CenterOn | StandardizeOn | center | standardize | serialize_bit | fft_modulus, trace dtype in 10 dtypes, '
        'value style (extremes of the dtype | random), frame forms (slice with/without start and step, range, list, ndarray, int, Ellipsis), '
        'mode full | same | distance 1..L+2, precision, rows 1..9, sub-seed); non-trivial = at least one output entry compared with the oracle; '
        'distinct by all of these')
ASSUMPTIONS = ['python integers / numpy scalar arithmetic are correct', 'int64 traces are generated within +-2^31 (exactly representable after promotion)',
               'Xcorr on odd frame lengths is a known finding (pinned by two stable tests of the repository)',
               'time-frequency operators compared with rtol 1e-9*L on the natural scale (sum |x1| * sum |x2|); batch centring modes with the eps of '
               'the centring dtype', 'row independence is bit-for-bit for element-wise operators, 1e-12 relative for FFT based ones and 4 ulp for ToPower '
               '(SIMD body vs scalar tail of the same numpy loop may differ in the last bit)']

INT_DT = ['uint8', 'int8', 'int16', 'uint16', 'int32', 'int64', 'uint32']
FLT_DT = ['float32', 'float64']
COMBOS = ['Product', 'Difference', 'AbsoluteDifference', 'CenteredProduct']
TIMEFREQ = ['Xcorr', 'WindowFFT', 'WindowFHT', 'MaxCorr', 'ConcatFFT', 'ConcatFHT']


def cases(tier, seed):
    out = []
    k = 0
    for op in COMBOS:
        for dt in INT_DT + FLT_DT:
            for mode in ('one_frame', 'distance', 'two_frames', 'same'):
                out.append(dict(gen='combo', op=op, dtype=dt, mode=mode, extremes=True, decoys=bool(k % 2), sub=core.subseed('C18', seed, k), must=True))
                k += 1
    for op in TIMEFREQ:
        for dt in ('uint8', 'int16', 'float32', 'float64'):
            for parity in ('even', 'odd'):
                out.append(dict(gen='timefreq', op=op, dtype=dt, parity=parity, sub=core.subseed('C18', seed, k), must=True))
                k += 1
    for op in ('square', 'ToPower', 'CenterOn', 'StandardizeOn', 'center', 'standardize', 'serialize_bit', 'fft_modulus'):
        for dt in INT_DT + FLT_DT:
            out.append(dict(gen='first', op=op, dtype=dt, extremes=True, sub=core.subseed('C18', seed, k), must=True))
            k += 1
    # traces stored in the other byte order (big-endian acquisition dumps): same values, same results
    for op in COMBOS:
        for dt in ('int16', 'uint32', 'float32', 'float64'):
            out.append(dict(gen='combo', op=op, dtype=dt, mode=['one_frame', 'distance', 'two_frames', 'same'][k % 4], extremes=bool(k % 2), swapped=True, sub=core.subseed('C18', seed, k), must=True))
            k += 1
    for op in ('square', 'ToPower', 'CenterOn', 'StandardizeOn', 'center', 'standardize', 'fft_modulus'):
        for dt in ('int16', 'float32'):
            out.append(dict(gen='first', op=op, dtype=dt, extremes=bool(k % 2), swapped=True, sub=core.subseed('C18', seed, k), must=True))
            k += 1
    for op in TIMEFREQ:
        out.append(dict(gen='timefreq', op=op, dtype=['int16', 'float32', 'float64'][k % 3], parity='even', swapped=True, sub=core.subseed('C18', seed, k), must=True))
        k += 1
    rs = np.random.default_rng(core.subseed('C18r', seed))
    n_rand = 4000 if tier == 'quick' else 60000
    for j in range(n_rand):
        r = rs.random()
        dt = (INT_DT + FLT_DT)[int(rs.integers(9))]
        if r < 0.55:
            out.append(dict(gen='combo', op=COMBOS[int(rs.integers(4))], dtype=dt, mode=['one_frame', 'distance', 'two_frames', 'same'][int(rs.integers(4))],
                            extremes=bool(rs.random() < 0.5), decoys=bool(rs.random() < 0.4), swapped=bool(rs.random() < 0.1), sub=int(rs.integers(2 ** 62))))
        elif r < 0.8:
            out.append(dict(gen='timefreq', op=TIMEFREQ[int(rs.integers(6))], dtype=dt, parity=['even', 'odd'][int(rs.integers(2))], sub=int(rs.integers(2 ** 62))))
        else:
            out.append(dict(gen='first', op=['square', 'ToPower', 'CenterOn', 'StandardizeOn', 'center', 'standardize', 'serialize_bit', 'fft_modulus'][int(rs.integers(8))],
                            dtype=dt, extremes=bool(rs.random() < 0.5), sub=int(rs.integers(2 ** 62))))
    return out


# ---------------------------------------------------------------------------------------------------------
def _traces(rng, n, L, dt, extremes, swapped=False):
    a = _traces_native(rng, n, L, dt, extremes)
    if swapped and a.dtype.itemsize > 1:
        a = a.astype(a.dtype.newbyteorder())          # same values, stored in the other byte order
    return a


def _traces_native(rng, n, L, dt, extremes):
    d = np.dtype(dt)
    if d.kind in 'iu':
        lo, hi = gen.dtype_range(dt)
        if dt == 'int64':
            lo, hi = -2 ** 31, 2 ** 31
        if extremes:
            pool = [lo, hi, lo + 1, hi - 1, 0, 1]
            if lo < 0:
                pool.append(-1)
            a = rng.choice(np.array(pool, dtype='int64'), (n, L))
            mix = rng.random((n, L)) < 0.3
            a = np.where(mix, rng.integers(lo, hi, (n, L), endpoint=True), a)
        else:
            span = int(rng.choice([3, 100, hi - lo]))
            base = int(rng.integers(lo, hi - min(span, hi - lo) + 1))
            a = rng.integers(base, base + min(span, hi - lo), (n, L), endpoint=True)
        return a.astype(dt)
    if extremes:
        a = rng.choice(np.array([0.0, -1.5, 3.25e3, -7.125e-2, 255.0, 1e6, -32768.0]), (n, L)) + np.where(rng.random((n, L)) < 0.5, rng.normal(0, 1, (n, L)), 0)
    else:
        a = rng.normal(float(rng.choice([0, 100, -3000])), float(rng.choice([0.5, 30])), (n, L))
    return a.astype(dt)


def _ro(a):
    a = np.array(a, copy=True)
    a.setflags(write=False)
    return a


def _frame_form(rng, idx, L):
    """A frame object (and the index list it denotes) in one of the accepted forms."""
    idx = list(idx)
    form = int(rng.integers(6))
    if form == 5:
        # the last k samples, addressed from the end: range(-k, 0) / slice(-k, 0) / a list of negative indices
        k = int(rng.integers(1, L + 1))
        ids = list(range(L - k, L))
        which = int(rng.integers(3))
        if which == 0:
            return range(-k, 0), ids
        if which == 1:
            return slice(-k, 0), ids
        return [i - L for i in ids], ids
    if len(idx) == 1 and form == 0:
        return int(idx[0]), idx
    if form == 1:
        return list(idx), idx
    if form == 2:
        return np.array(idx), idx
    if form == 3:
        # arithmetic progression -> slice / range
        a = int(rng.integers(0, L))
        step = int(rng.integers(1, 4))
        b = int(rng.integers(a + 1, L + 1))
        ids = list(range(a, b, step))
        which = int(rng.integers(3))
        if which == 0:
            return slice(a if a or rng.random() < 0.5 else None, b, step if step > 1 or rng.random() < 0.5 else None), ids
        if which == 1:
            return range(a, b, step), ids
        return slice(a, b, step), ids
    return list(idx), idx


def _out_dtype(dt, precision):
    return np.result_type(np.dtype(dt), np.dtype(precision))


def _round_once(value, dt):
    """Exact python int / float -> numpy scalar of dtype dt, one rounding."""
    if dt == np.float32:
        f = float(value)                      # exact for |value| < 2^53 (guaranteed by the generator for float32 outputs)
        return np.float32(f)
    return np.float64(float(value))           # python int -> float is correctly rounded


def _pairs(mode, f1, f2, distance):
    if mode == 'one_frame':
        return [(f1[i], f1[j]) for i in range(len(f1)) for j in range(i, len(f1))]
    if mode == 'distance':
        return [(f1[i], f1[j]) for i in range(len(f1)) for j in range(i, min(i + distance, len(f1) - 1) + 1)]
    if mode == 'two_frames':
        return [(a, b) for a in f1 for b in f2]
    if mode == 'same':
        return list(zip(f1, f2))
    raise ValueError(mode)


def _second_call(t, factory, f, x, out, info, how='bits'):
    """A preprocess object is reused by a container for every batch: what it returns for a batch must not depend on the batches it saw
    before (this also holds for the documented batch-centring operators, which depend on the current batch only)."""
    def same(a, b):
        if how == 'bits':
            return a.shape == b.shape and bool(np.array_equal(a, b, equal_nan=True))
        with np.errstate(all='ignore'):
            sc = np.maximum(np.abs(a), np.abs(b)).max() if a.size else 1.0
            return a.shape == b.shape and bool(np.all((np.abs(a - b) <= 1e-12 * sc) | (a == b) | (np.isnan(a) & np.isnan(b))))
    rng = np.random.default_rng(x.size * 31 + x.shape[0])
    n2 = int(rng.integers(1, 8))
    pool = np.concatenate([x, x[::-1]])
    x2 = np.ascontiguousarray(pool[rng.integers(0, len(pool), n2)][:, rng.permutation(x.shape[1])])     # another batch: other rows, columns shuffled
    if x2.shape[0] == x.shape[0] and np.array_equal(x2, x):
        return
    keep = np.array(out, copy=True)
    with np.errstate(all='ignore'):
        f(_ro(np.ascontiguousarray(x[::-1] if x.shape[0] > 1 else x[:, ::-1])))      # another batch of exactly the same shape and dtype
    t.check(bool(np.array_equal(np.asarray(out), keep, equal_nan=True)), 'earlier_result_overwritten_by_later_call',
            lambda: dict(info, what='the array returned for the first batch changed when a batch of the same shape was processed'))
    with np.errstate(all='ignore'):
        again = f(_ro(x2))                      # the object under test, second batch
        fresh = factory()(_ro(x2))              # a fresh object, same batch
        back = f(_ro(x))                        # and the first batch once more

    t.count('second_call_twins')
    t.check(same(again, fresh), 'result_depends_on_batches_seen_before', lambda: dict(info, rows_second_batch=n2, what='second batch vs fresh object'))
    t.check(same(back, keep), 'result_depends_on_batches_seen_before', lambda: dict(info, what='first batch again after another batch'))


def _row_independence(t, f, x, out, info, how='bits', batch_op=False):
    """Row r of f(batch) must equal f(row r alone), and the row inside a permuted / extended batch."""
    if batch_op:
        return
    n = x.shape[0]
    rng = np.random.default_rng(n * 7919 + x.shape[1])

    def same(a, b):
        if how == 'bits':
            return a.shape == b.shape and bool(np.array_equal(a, b, equal_nan=True))
        rt = 1e-12 if how == 'fft' else 4 * float(np.finfo(a.dtype).eps if a.dtype.kind == 'f' else 1e-15)
        sc = np.maximum(np.abs(a), np.abs(b))
        sc = sc.max() if how == 'fft' and sc.size else sc
        with np.errstate(all='ignore'):
            return a.shape == b.shape and bool(np.all((np.abs(a - b) <= rt * sc) | (a == b) | (np.isnan(a) & np.isnan(b))))
    for r in sorted(set([0, n - 1, int(rng.integers(n))])):
        alone = f(_ro(x[r:r + 1]))
        t.count('row_independence_rows')
        t.check(alone.shape[0] == 1 and same(alone[0], out[r]), 'row_depends_on_other_rows', lambda: dict(info, row=r, how='alone vs in batch', alone=alone[0][:6].tolist(), batch=out[r][:6].tolist()))
    if n >= 2:
        p = rng.permutation(n)
        extra = x[rng.integers(0, n, 2)][:, ::-1]
        big = np.concatenate([extra[:1], x[p], extra[1:]])
        ob = f(_ro(big))
        t.count('row_independence_rows', n)
        t.check(ob.shape[0] == n + 2 and same(ob[1:-1], out[p]), 'row_depends_on_other_rows', lambda: dict(info, how='permuted and extended batch'))


def run_combo(case):
    from scared.preprocesses import high_order as ho
    t = core.Tally()
    rng = gen.rng_of(case['sub'])
    op, dt, mode = case['op'], case['dtype'], case['mode']
    n = int(rng.integers(1, 10))
    L = int(rng.integers(1, 13)) if mode != 'same' else int(rng.integers(1, 13))
    x = _traces(rng, n, L, dt, case['extremes'], case.get('swapped'))
    if case['extremes']:
        t.count('extreme_value_cases')
    precision = ['float32', 'float64'][int(rng.integers(2))]
    odt = _out_dtype(dt, precision)
    kw = dict(precision=precision)
    distance = None
    # frames
    if mode in ('one_frame', 'distance'):
        if rng.random() < 0.3:
            f1 = list(range(L))
            frame_1 = ...
        else:
            k = int(rng.integers(1, L + 1))
            frame_1, f1 = _frame_form(rng, sorted(rng.choice(L, k, replace=False).tolist()) if rng.random() < 0.7 else rng.choice(L, k).tolist(), L)
        f2 = None
        kw['frame_1'] = frame_1
        if mode == 'distance':
            distance = int(rng.integers(1, len(f1) + 3))
            kw['distance'] = distance
    elif mode == 'two_frames':
        k1, k2 = int(rng.integers(1, L + 1)), int(rng.integers(1, L + 1))
        frame_1, f1 = _frame_form(rng, rng.choice(L, k1).tolist(), L)
        frame_2, f2 = _frame_form(rng, rng.choice(L, k2).tolist(), L)
        kw.update(frame_1=frame_1, frame_2=frame_2)
    else:
        k = int(rng.integers(1, L + 1))
        a, b = rng.choice(L, k).tolist(), rng.choice(L, k).tolist()
        form = int(rng.integers(3))
        if form == 0:
            frame_1, frame_2 = list(a), list(b)
        elif form == 1:
            frame_1, frame_2 = np.array(a), np.array(b)
        else:
            s1, s2 = int(rng.integers(0, L - k + 1)), int(rng.integers(0, L - k + 1))
            frame_1, frame_2 = slice(s1, s1 + k), range(s2, s2 + k)
            a, b = list(range(s1, s1 + k)), list(range(s2, s2 + k))
        f1, f2 = a, b
        kw.update(frame_1=frame_1, frame_2=frame_2, mode='same')
    mean = None
    batch_op = False
    if op == 'CenteredProduct':
        if rng.random() < 0.7:
            if np.dtype(dt).kind in 'iu' and rng.random() < 0.6:
                lo, hi = gen.dtype_range(dt)
                mean = rng.integers(max(lo, -2 ** 31), min(hi, 2 ** 31), L, endpoint=True).astype('float64')
            else:
                mean = rng.normal(0, 10, L).astype(['float32', 'float64'][int(rng.integers(2))])
            kw['mean'] = mean
        else:
            batch_op = True
    info = dict(op=op, dtype=dt, mode=mode, rows=n, L=L, precision=precision, frame_1=repr(kw.get('frame_1'))[:60], frame_2=repr(kw.get('frame_2'))[:60],
                distance=distance, mean=None if mean is None else 'given', out_dtype=str(odt))
    def factory():
        return getattr(ho, op)(**kw)
    f = factory()
    decoys = []
    if case.get('decoys'):
        # other combination preprocesses with the same frames built after this one and kept alive: each keeps its own operation
        kw2 = {k_: v for k_, v in kw.items() if k_ != 'mean'}
        decoys = [getattr(ho, o)(**kw2) for o in COMBOS if o != op]
        info['built_afterwards'] = [o for o in COMBOS if o != op]
        t.count('preprocesses_built_afterwards', len(decoys))
    if case.get('swapped'):
        t.count('other_byte_order_cases')
        info['byte_order'] = x.dtype.byteorder
    xin = _ro(x)
    snap = x.tobytes()
    out = f(xin)
    t.check(x.tobytes() == snap, 'input_modified', info)
    pairs = _pairs(mode, f1, f2, distance)
    t.count('pair_sets:' + mode)
    t.count('dtype_contracts')
    exp_dt = odt if mean is None or not batch_op else odt
    if mean is not None:
        exp_dt = np.result_type(odt, mean.dtype)
    t.check(out.dtype == exp_dt and out.dtype.kind == 'f' and out.dtype.itemsize >= 4, 'output_not_promoted', lambda: dict(info, got=str(out.dtype), expected=str(exp_dt)))
    if not t.check(out.shape == (n, len(pairs)), 'pair_count', lambda: dict(info, got=out.shape, expected=(n, len(pairs)))):
        return t.result()
    integral = np.dtype(dt).kind in 'iu'
    xi = x.astype(object) if integral else None
    # exact / scalar oracle
    exp = np.empty((n, len(pairs)), dtype=out.dtype)
    tolerance = None
    if op == 'CenteredProduct' and batch_op:
        xl = x.astype(np.longdouble)
        mu = xl.mean(0)
        c = xl - mu
        ref = np.stack([c[:, a] * c[:, b] for a, b in pairs], axis=1) if pairs else np.zeros((n, 0))
        eps = float(np.finfo(odt).eps)
        ab = np.abs(xl) + np.abs(xl).mean(0)
        tolerance = np.stack([ab[:, a] * ab[:, b] for a, b in pairs], axis=1).astype(float) * eps * (8 + 2 * math.log2(n + 1)) + 1e-300
        exp = ref.astype(float)
    else:
        for r in range(n):
            for c, (a, b) in enumerate(pairs):
                if integral and (mean is None or np.all(mean == np.round(mean))):
                    va, vb = int(xi[r, a]), int(xi[r, b])
                    if mean is not None:
                        va, vb = va - int(mean[a]), vb - int(mean[b])
                    if op in ('Product', 'CenteredProduct'):
                        v = va * vb
                    elif op == 'Difference':
                        v = va - vb
                    else:
                        v = abs(va - vb)
                    exp[r, c] = _round_once(v, out.dtype)
                else:
                    ty = out.dtype.type
                    va, vb = ty(x[r, a]), ty(x[r, b])
                    if mean is not None:
                        va, vb = ty(odt.type(x[r, a]) - mean[a]), ty(odt.type(x[r, b]) - mean[b])
                    if op in ('Product', 'CenteredProduct'):
                        v = va * vb
                    elif op == 'Difference':
                        v = va - vb
                    else:
                        v = abs(va - vb)
                    exp[r, c] = v
    t.count('combination_entries', exp.size)
    if tolerance is None:
        # float32 products of int16-range operands: the exact product is < 2^53 so the single rounding is exact; for float32 outputs the
        # operands themselves were rounded by the (documented) promotion only when |x| >= 2^24, which cannot happen for <= 16-bit dtypes
        ok = bool(np.array_equal(out, exp, equal_nan=True))
        t.check(ok, 'combination_value', lambda: _diff(info, out, exp, pairs))
    else:
        bad = np.abs(out.astype(float) - exp) > tolerance
        t.check(not bad.any(), 'combination_value', lambda: _diff(info, out, exp, pairs, bad))
    _row_independence(t, f, x, out, info, how='bits', batch_op=batch_op)
    _second_call(t, factory, f, x, out, info, how='bits')
    return t.result(sig=f"{op}|{dt}|{mode}|{n}x{L}|{precision}|{info['frame_1']}|{info['frame_2']}|{distance}|{info['mean']}|{case['extremes']}",
                    sample=dict(case=case, derived=info, pairs=len(pairs)))


def _diff(info, out, exp, pairs, bad=None):
    if bad is None:
        with np.errstate(all='ignore'):
            bad = ~((out == exp) | (np.isnan(out) & np.isnan(exp)))
    i = tuple(np.argwhere(bad)[0])
    return dict(info, row=int(i[0]), column=int(i[1]), pair=list(pairs[i[1]]) if pairs else None, got=float(out[i]), expected=float(exp[i]), n_bad=int(bad.sum()))


# ---------------------------------------------------------------------------------------------------------
def _dft(x, K):
    """rows of x (float64) -> first K DFT bins, naive."""
    L = x.shape[1]
    n = np.arange(L)
    W = np.exp(-2j * np.pi * np.outer(np.arange(K), n) / L)
    return x.astype(np.complex128) @ W.T


def run_timefreq(case):
    from scared.preprocesses import high_order as ho
    t = core.Tally()
    rng = gen.rng_of(case['sub'])
    op, dt = case['op'], case['dtype']
    n = int(rng.integers(1, 8))
    k = int(rng.integers(1, 9)) * 2 - (1 if case['parity'] == 'odd' else 0)     # frame length
    L = k + int(rng.integers(0, 6))
    x = _traces(rng, n, L, dt, False, case.get('swapped'))
    mode = ['raw', 'raw', 'centered', 'standardized'][int(rng.integers(4))]
    same_len = op in ('Xcorr', 'WindowFFT', 'WindowFHT')
    conf = int(rng.integers(4))
    s1 = int(rng.integers(0, L - k + 1))
    k2 = k if same_len else int(rng.integers(1, L + 1))
    s2 = int(rng.integers(0, L - k2 + 1))
    f1, f2 = list(range(s1, s1 + k)), list(range(s2, s2 + k2))
    if conf == 0:
        kw = dict(frame_1=slice(s1, s1 + k), frame_2=slice(s2, s2 + k2))
    elif conf == 1:
        kw = dict(frame_1=list(f1), frame_2=np.array(f2))
    elif conf == 2:
        kw = dict(frame_1=range(s1, s1 + k))
        f2 = f1
    else:
        kw = dict(frame_2=slice(s2, s2 + k2))
        f1 = f2
    if 'frame_1' in kw and rng.random() < 0.25:
        # the last k samples addressed from the end of the trace
        f1 = list(range(L - k, L))
        kw['frame_1'] = [range(-k, 0), slice(-k, 0), [i - L for i in f1]][int(rng.integers(3))]
        if 'frame_2' not in kw:
            f2 = f1
        t.count('negative_index_frames')
    if rng.random() < 0.15:
        kw = {}
        f1 = f2 = list(range(L))
    info = dict(op=op, dtype=dt, rows=n, L=L, mode=mode, frame_1=repr(kw.get('frame_1'))[:50], frame_2=repr(kw.get('frame_2'))[:50], len_1=len(f1), len_2=len(f2))
    def factory():
        return getattr(ho, op)(mode=mode, **kw)
    f = factory()
    if op == 'Xcorr' and len(f1) % 2 == 1:
        # the odd-length defect also shows as an exception (length 1: irfft is asked for 0 points)
        try:
            out = f(_ro(x))
        except ValueError as e:
            t.count('xcorr_odd_length_cases')
            t.check(False, 'xcorr_odd_frame_length', dict(info, raised=repr(e)[:200]))
            return t.result()
    else:
        out = f(_ro(x))
    t.count('dtype_contracts')
    t.check(out.dtype.kind == 'f' and out.dtype.itemsize >= 4, 'output_not_promoted', lambda: dict(info, got=str(out.dtype)))
    xl = x.astype(np.float64)
    t1, t2 = xl[:, f1], xl[:, f2]
    ceps = float(np.finfo(np.result_type(np.dtype(dt), 'float32')).eps)
    # numpy's FFT computes float32 input in single precision
    base_rt = 1e-9 if dt != 'float32' else 32 * float(np.finfo('float32').eps)
    if mode != 'raw':
        if n < 2 and mode == 'standardized':
            return core.held(0, nontrivial=False, counters=t.counters)
        sd1, sd2 = t1.std(0), t2.std(0)
        if mode == 'standardized' and (np.any(sd1 < 1e-3 * (np.abs(t1).max() + 1)) or np.any(sd2 < 1e-3 * (np.abs(t2).max() + 1))):
            t.count('undecidable_zero_std')
            r = core.held(0, nontrivial=False, counters=t.counters)
            r['metrics'] = {}
            return r
        amp = (np.abs(xl).max() + 1) / (min(sd1.min(), sd2.min()) if mode == 'standardized' else 1.0)
        t1, t2 = t1 - t1.mean(0), t2 - t2.mean(0)
        if mode == 'standardized':
            t1, t2 = t1 / sd1, t2 / sd2
        base_rt = base_rt + 64 * ceps * max(1.0, amp / (np.abs(t1).max() + np.abs(t2).max() + 1e-300)) * (1 + math.log2(n + 1))
        # absolute error of every centred / standardized sample (cancellation in x - mean): it does not shrink with the sample itself,
        # so rows whose transformed values are much smaller than the others cannot be judged relative to their own magnitude only
        dz = 64 * ceps * amp * (1 + math.log2(n + 1))
    else:
        dz = 0.0
    l1, l2 = len(f1), len(f2)
    if op == 'Xcorr':
        if l1 % 2 == 1:
            naive = np.stack([np.array([np.sum(t1[r] * np.roll(t2[r], -kk)) for kk in range(l1)]) for r in range(n)])
            good = out.shape == naive.shape and bool(np.allclose(out, naive, rtol=1e-6, atol=1e-6 * (np.abs(naive).max() + 1)))
            t.count('xcorr_odd_length_cases')
            t.check(good, 'xcorr_odd_frame_length', lambda: dict(info, got_shape=out.shape, expected_shape=naive.shape))
            return t.result(sig=f"{op}|odd|{l1}", sample=dict(case=case, derived=info))
        exp = np.stack([np.array([np.sum(t1[r] * np.roll(t2[r], -kk)) for kk in range(l1)]) for r in range(n)])
        scale = np.sum(np.abs(t1), 1, keepdims=True) * np.max(np.abs(t2), 1, keepdims=True)
    elif op == 'WindowFFT':
        K = l1 // 2 + 1
        exp = np.abs(np.conj(_dft(t1, K)) * _dft(t2, K))
        scale = np.sum(np.abs(t1), 1, keepdims=True) * np.sum(np.abs(t2), 1, keepdims=True)
    elif op == 'WindowFHT':
        K = l1 // 2 + 1
        F1, F2 = _dft(t1, K), _dft(t2, K)
        exp = (F1.real - F1.imag) * (F2.real - F2.imag)
        scale = 2 * np.sum(np.abs(t1), 1, keepdims=True) * np.sum(np.abs(t2), 1, keepdims=True)
    else:
        cat = np.hstack([t1, t2])
        K = cat.shape[1] // 2 + 1
        F = _dft(cat, K)
        s = np.sum(np.abs(cat), 1, keepdims=True)
        if op == 'MaxCorr':
            exp = np.hstack([F.real, F.imag, np.abs(F)])
            scale = s
        elif op == 'ConcatFFT':
            exp = np.abs(F) ** 2
            scale = s * s
        else:
            exp = (F.real - F.imag) ** 2
            scale = 2 * s * s
    t.count('timefreq_entries', exp.size)
    if not t.check(out.shape == exp.shape, 'timefreq_shape', lambda: dict(info, got=out.shape, expected=exp.shape)):
        return t.result()
    tl = base_rt * max(l1 + l2, 2) * scale + 1e-300
    if dz:
        tsum = np.sum(np.abs(t1), 1, keepdims=True) + np.sum(np.abs(t2), 1, keepdims=True)
        tl = tl + (2 * dz * (l1 + l2) if op == 'MaxCorr' else 4 * dz * (tsum + dz * (l1 + l2)))
    bad = np.abs(out.astype(float) - exp) > tl
    t.metric('timefreq_ratio', float(np.max(np.abs(out.astype(float) - exp) / tl)))
    t.check(not bad.any(), 'timefreq_value', lambda: _diff(info, out.astype(float), exp, None, bad))
    _row_independence(t, f, x, out, info, how='fft', batch_op=(mode != 'raw'))
    if not (mode == 'standardized'):
        _second_call(t, factory, f, x, out, info, how='fft')
    return t.result(sig=f"{op}|{dt}|{n}x{L}|{mode}|{l1}|{l2}|{conf}", sample=dict(case=case, derived=info))


# ---------------------------------------------------------------------------------------------------------
def run_first(case):
    import scared
    pp = scared.preprocesses
    t = core.Tally()
    rng = gen.rng_of(case['sub'])
    op, dt = case['op'], case['dtype']
    n = int(rng.integers(1, 10))
    L = int(rng.integers(1, 12))
    x = _traces(rng, n, L, dt, case['extremes'], case.get('swapped'))
    if case['extremes']:
        t.count('extreme_value_cases')
    integral = np.dtype(dt).kind in 'iu'
    precision = ['float32', 'float64'][int(rng.integers(2))]
    odt = _out_dtype(dt, precision)
    info = dict(op=op, dtype=dt, rows=n, L=L, precision=precision)
    xi = x.astype(object) if integral else None
    xl = x.astype(np.longdouble)
    how, batch_op, tolerance = 'bits', False, None
    if op == 'square':
        factory = lambda: pp.square
        f = factory()
        odt = _out_dtype(dt, 'float32')
        if integral:
            exp = np.array([[_round_once(int(v) * int(v), odt) for v in row] for row in xi], dtype=odt).reshape(n, L)
        else:
            exp = (x.astype(odt) * x.astype(odt))
    elif op == 'ToPower':
        p = [1, 2, 3, 0.5, -1, 4][int(rng.integers(6))]
        info['power'] = p
        factory = lambda: pp.ToPower(power=p, precision=precision)
        f = factory()
        with np.errstate(all='ignore'):
            exp = np.power(xl, np.longdouble(p)).astype(float)
        tolerance = 4 * float(np.finfo(odt).eps) * np.abs(exp) + 1e-300
        how = 'ulp'
    elif op == 'CenterOn':
        if integral and rng.random() < 0.6:
            lo, hi = gen.dtype_range(dt)
            mean = rng.integers(max(lo, -2 ** 31), min(hi, 2 ** 31), L, endpoint=True).astype(['float64', 'int64', dt][int(rng.integers(3))])
        else:
            mean = rng.normal(0, 10, L).astype(['float32', 'float64'][int(rng.integers(2))])
        info['mean_dtype'] = str(mean.dtype)
        factory = lambda: pp.CenterOn(mean=mean, precision=precision)
        f = factory()
        ref = xl - mean.astype(np.longdouble)
        exp = ref.astype(float)
        odt = np.result_type(odt, mean.dtype)
        tolerance = float(np.finfo(odt).eps) * (np.abs(xl) + np.abs(mean.astype(np.longdouble))).astype(float) + 1e-300
    elif op == 'StandardizeOn':
        if integral and rng.random() < 0.6:
            lo, hi = gen.dtype_range(dt)
            mean = rng.integers(max(lo, -2 ** 31), min(hi, 2 ** 31), L, endpoint=True).astype(['float64', 'int64', dt][int(rng.integers(3))])
            std = rng.integers(1, 9, L).astype(['float64', 'int64', dt][int(rng.integers(3))])
        else:
            mean = rng.normal(0, 10, L).astype(['float32', 'float64'][int(rng.integers(2))])
            std = (np.abs(rng.normal(0, 3, L)) + 0.5).astype(['float32', 'float64'][int(rng.integers(2))])
        info['mean_dtype'], info['std_dtype'] = str(mean.dtype), str(std.dtype)
        factory = lambda: pp.StandardizeOn(mean=mean, std=std, precision=precision)
        f = factory()
        ref = (xl - mean.astype(np.longdouble)) / std.astype(np.longdouble)
        exp = ref.astype(float)
        odt = np.result_type(odt, mean.dtype, std.dtype)
        # the subtraction is rounded in the common dtype of (promoted traces, mean), the division in the output dtype
        sub_eps = float(np.finfo(np.result_type(_out_dtype(dt, precision), mean.dtype)).eps)
        tolerance = ((2 * sub_eps + 4 * float(np.finfo(odt).eps)) * ((np.abs(xl) + np.abs(mean.astype(np.longdouble))) / np.abs(std.astype(np.longdouble)))).astype(float) + 1e-300
    elif op in ('center', 'standardize'):
        factory = lambda: getattr(pp, op)
        f = factory()
        batch_op = True
        odt = _out_dtype(dt, 'float32')
        mu = xl.mean(0)
        ref = xl - mu
        eps = float(np.finfo(odt).eps)
        tolerance = (np.abs(xl) + np.abs(xl).mean(0)).astype(float) * eps * (4 + math.log2(n + 1)) + 1e-300
        if op == 'standardize':
            sd = xl.std(0)
            okc = sd > 1e-3 * (np.abs(xl).max(0) + 1)
            if not okc.any():
                r = core.held(0, nontrivial=False, counters=t.counters)
                r['metrics'] = {}
                return r
            with np.errstate(all='ignore'):
                ref = np.where(okc, ref / sd, np.nan)
                cond = (np.abs(xl).max(0) + 1) / sd
                tolerance = np.where(okc, (np.abs(ref) + 1) * eps * (16 + 4 * math.log2(n + 1)) * np.maximum(cond * cond, 1.0), np.inf).astype(float)
        exp = ref.astype(float)
    elif op == 'serialize_bit':
        if not integral:
            x = np.abs(np.round(x)) % 256
            x = x.astype(dt)
        xv = (x.astype('int64') % 256)
        factory = lambda: pp.serialize_bit
        f = factory()
        exp = np.array([[(int(v) >> (7 - b)) & 1 for v in row for b in range(8)] for row in xv], dtype='uint8').reshape(n, 8 * L)
        odt = np.dtype('uint8')
    elif op == 'fft_modulus':
        factory = lambda: pp.fft_modulus
        f = factory()
        K = int(math.ceil(L / 2))
        exp = np.abs(_dft(x.astype(np.float64), K))
        tolerance = (1e-9 if dt != 'float32' else 32 * float(np.finfo('float32').eps)) * max(L, 2) * np.sum(np.abs(x.astype(np.float64)), 1, keepdims=True) + 1e-300
        odt = np.dtype('float64') if dt != 'float32' else None
        how = 'fft'
    else:
        raise ValueError(op)
    xin = _ro(x)
    snap = x.tobytes()
    with np.errstate(all='ignore'):
        out = f(xin)
    t.check(x.tobytes() == snap, 'input_modified', info)
    t.count('dtype_contracts')
    if op == 'serialize_bit':
        t.check(out.dtype == np.uint8, 'output_dtype', lambda: dict(info, got=str(out.dtype)))
    else:
        t.check(out.dtype.kind == 'f' and out.dtype.itemsize >= 4 and (odt is None or out.dtype == odt), 'output_not_promoted',
                lambda: dict(info, got=str(out.dtype), expected=str(odt)))
    t.count('first_order_entries', exp.size)
    if not t.check(out.shape == exp.shape, 'first_order_shape', lambda: dict(info, got=out.shape, expected=exp.shape)):
        return t.result()
    if tolerance is None:
        t.check(bool(np.array_equal(out, exp, equal_nan=True)), 'first_order_value', lambda: _diff(info, out.astype(float), exp.astype(float), None))
    else:
        with np.errstate(all='ignore'):
            o = out.astype(float)
            judged = np.isfinite(exp) & np.isfinite(tolerance)
            bad = judged & ~(np.abs(o - exp) <= tolerance)
        if op == 'ToPower':
            # non-finite definitions (0 ** -1, negative ** 0.5): both sides must be non-finite
            nf = ~np.isfinite(exp)
            bad |= nf & np.isfinite(o)
        t.check(not bad.any(), 'first_order_value', lambda: _diff(info, o, exp, None, bad))
    _row_independence(t, f, x, out, info, how=how, batch_op=batch_op)
    if op != 'standardize':
        _second_call(t, factory, f, x, out, info, how='bits' if how == 'bits' else 'fft')
    return t.result(sig=f"{op}|{dt}|{n}x{L}|{precision}|{info.get('power')}|{info.get('mean_dtype')}|{info.get('std_dtype')}|{case['extremes']}",
                    sample=dict(case=case, derived=info))


def run_case(case):
    r = dict(combo=run_combo, timefreq=run_timefreq, first=run_first)[case['gen']](case)
    for c in REQUIRED_COUNTERS:
        r.setdefault('counters', {}).setdefault(c, 0)
    return r
