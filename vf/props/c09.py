"""C09 - t-test equals the Welch statistic whatever the batching and thread timing.

Monitors
  * a preprocess placed first in the container chain is the in-thread spy: scared calls it once per batch inside the
    accumulator thread.  Column 0 of the framed samples carries a unique trace id (the spy strips it, so it never
    enters the statistic); the spy logs (global sequence number, thread, ids), injects a seeded delay, or raises the
    injected exception at the dictated (set, batch) position.
  * TTestThreadAccumulator.update is wrapped for the duration of a case: call / return events on one counter, so
    overlapping updates of the two accumulators are *observed*, not assumed.
Oracles
  * exact rational Welch t with population variances on the concatenation of everything run so far (vf.oracles);
    the accumulators' sum / sum_squared are compared with the exact integer sums bit-for-bit in the exact regime;
  * trace specification over the log: per set, ids consumed exactly once and in order, a thread only ever sees ids of
    its own set, processed_traces == set size, the two accumulators share no buffer;
  * a failure injected in one thread: run() raises that very exception, `result` is neither created nor refreshed.
Schedules are perturbed by per-batch delays, sys.setswitchinterval(1e-6), numba thread counts 1..16 and
sys.monitoring LINE-event yield injection restricted to scared/ttest.py; the interleavings observed are counted.
"""
import itertools
import random
import sys
import threading
import time

import numpy as np

from .. import core, gen, oracles, tol

ID = 'C09'
LEVEL = 'exploration'
WORKERS = {'quick': 10, 'thorough': 12}
BUDGET_S = {'quick': 70, 'thorough': 600}
NUMBA_THREADS = 16
REQUIRED_COUNTERS = ['runs', 'results_vs_welch', 'accumulators_vs_exact_sums', 'batch_events', 'ids_logged', 'update_calls', 'update_overlaps_observed', 'thread_switches_observed',
                     'faults_injected', 'faults_reraised', 'yield_injection_runs', 'yield_injection_line_events', 'multi_run_sequences', 'thread_count_variations', 'stress_cases']
RULE = ('a case = (sizes of the two sets 1..600 (equal, very unequal, one-trace tails), batch size 1..N, 1-30 samples, trace dtype, frame form, 0-2 row-wise '
        'preprocesses, precision, 1-3 run() calls, schedule perturbation (none | per-batch delays skewed to one thread | switch interval 1e-6 | numba threads '
        '1..16 | sys.monitoring yield injection), fault (none | exception of 4 types in thread i at batch j)); non-trivial = result compared with the exact '
        'Welch statistic or an injected failure observed at the caller; distinct by case parameters AND the observed interleaving of batch events')
ASSUMPTIONS = ['only interleavings produced by the OS scheduler, the injected delays, the switch interval and the yield injection are observed; their number is reported',
               'BaseException-derived failures (KeyboardInterrupt, SystemExit) are out of scope', 'exact regime: integer samples small enough for every sum to be exact in the precision; '
               'float traces are judged with 16*n*eps*scale', 'entries whose statistic is undefined (both variances 0) are not judged']

_seq = itertools.count()
_lock = threading.Lock()


def cases(tier, seed):
    out = []
    k = 0
    for pert in ('none', 'delays', 'switch', 'threads', 'yield'):
        for prec in ('float32', 'float64'):
            for regime in ('E', 'R'):
                out.append(dict(gen='tt', pert=pert, precision=prec, regime=regime, fault=None, sub=core.subseed('C09', seed, k), must=True))
                k += 1
    # the statistic has no unit: traces in millivolt- or microvolt-like units (and in large units) give the same t
    for prec in ('float32', 'float64'):
        for unit in (1e-3, 1e-6, 1e-9, 1e4):
            out.append(dict(gen='tt', pert='none', precision=prec, regime='R', unit=unit, fault=None, sub=core.subseed('C09u', seed, k), must=True))
            k += 1
    for j in range(6 if tier == 'quick' else 60):
        out.append(dict(gen='tt', pert=['threads', 'none', 'threads'][j % 3], precision='float64', regime='E', fault=None, stress=True, sub=core.subseed('C09s', seed, j), must=j < 4))
    for thread in (0, 1):
        for where in ('first', 'middle', 'last'):
            for exc in ('ValueError', 'RuntimeError', 'Custom', 'ZeroDivisionError'):
                out.append(dict(gen='tt', pert='delays', precision='float64', regime='E', fault=dict(thread=thread, where=where, exc=exc, after_good_run=bool(k % 2)),
                                sub=core.subseed('C09f', seed, k), must=True))
                k += 1
    rs = np.random.default_rng(core.subseed('C09r', seed))
    n_rand = 260 if tier == 'quick' else 6000
    for j in range(n_rand):
        fault = None
        if rs.random() < 0.2:
            fault = dict(thread=int(rs.integers(2)), where=['first', 'middle', 'last', 'random'][int(rs.integers(4))], exc=['ValueError', 'RuntimeError', 'Custom', 'ZeroDivisionError'][int(rs.integers(4))],
                         after_good_run=bool(rs.integers(2)))
        out.append(dict(gen='tt', pert=['none', 'delays', 'delays', 'switch', 'threads', 'threads', 'yield'][int(rs.integers(7))], precision=['float32', 'float64'][int(rs.integers(2))],
                        regime='E' if rs.random() < 0.75 else 'R', fault=fault, sub=int(rs.integers(2 ** 62))))
    return out


class InjectedFailure(Exception):
    pass


EXC = dict(ValueError=ValueError, RuntimeError=RuntimeError, Custom=InjectedFailure, ZeroDivisionError=ZeroDivisionError)


class _YieldInjection:
    """sys.monitoring LINE events restricted to scared/ttest.py: yields (sleep(0)) and tiny sleeps at statement starts."""

    def __init__(self, seed, on):
        self.on = on
        self.rnd = random.Random(seed)
        self.hits = 0

    def __enter__(self):
        if not self.on:
            return self
        import scared.ttest as tt
        mon = sys.monitoring
        self.tool = mon.PROFILER_ID
        try:
            mon.use_tool_id(self.tool, 'vf-yield')
        except ValueError:
            self.on = False
            return self
        target = tt.__file__
        lk = threading.Lock()

        def on_line(code, line):
            if code.co_filename != target:
                return mon.DISABLE
            with lk:
                self.hits += 1
                r = self.rnd.random()
            if r < 0.3:
                time.sleep(0)
            elif r < 0.33:
                time.sleep(0.0005)
        mon.register_callback(self.tool, mon.events.LINE, on_line)
        mon.set_events(self.tool, mon.events.LINE)
        return self

    def __exit__(self, *a):
        if self.on:
            mon = sys.monitoring
            mon.set_events(self.tool, 0)
            mon.register_callback(self.tool, mon.events.LINE, None)
            mon.free_tool_id(self.tool)
            mon.restart_events()


def run_case(case):
    import numba
    import scared
    from scared import ttest as tt
    t = core.Tally()
    for c in REQUIRED_COUNTERS:
        t.count(c, 0)
    rng = gen.rng_of(case['sub'])
    prec, regime, pert, fault = case['precision'], case['regime'], case['pert'], case['fault']
    sizes_kind = int(rng.integers(5))
    if sizes_kind == 0:
        n1 = n2 = int(rng.integers(1, 300))
    elif sizes_kind == 1:
        n1, n2 = int(rng.choice([256, 512, 513, 600, int(rng.integers(200, 601))])), int(rng.integers(1, 6))
    elif sizes_kind == 2:
        n1, n2 = int(rng.integers(1, 6)), int(rng.integers(100, 601))
    else:
        n1, n2 = int(rng.integers(1, 400)), int(rng.integers(1, 400))
    T = int(rng.integers(1, 31))
    stress = bool(case.get('stress'))
    if stress:
        # thousands of traces per batch and very narrow or very wide frames: long kernel launches, so that racy iterations really overlap
        n1 = n2 = int(rng.choice([3000, 8000]))
        T = int(rng.choice([1, 2, 3, 200, 800]))
        t.count('stress_cases')
    nruns = int(rng.choice([1, 1, 2, 3]))
    if fault:
        nruns = 2 if fault['after_good_run'] else 1
    nruns = max(1, min(nruns, n1, n2))
    bs = int(rng.choice([1, 2, 3, 7, 10, 16, 50, 64, 100, 128, 256, 512, max(n1, n2), max(n1, n2) + 3]))
    if bs == 1 and n1 + n2 > 400:
        bs = 5
    tdt = ['int16', 'int32', 'uint16', 'float32', 'float64'][int(rng.integers(5))]
    off2 = 1000
    unit = 1.0
    if stress:
        bs = int(rng.choice([n1, n1, 1000, 2500]))
        tdt = ['int32', 'float64', 'float32'][int(rng.integers(3))]
        off2 = 100000
        nruns = 1
    # samples: column `cid` carries the unique id, the others the leakage
    L = T + 1 + int(rng.integers(0, 4))
    cid = 0
    if regime == 'E':
        # sum of squares exact: n * X^2 * (chain growth) < limit
        X = 3 if prec == 'float32' else int(rng.choice([3, 50, 1000]))
        body1 = rng.integers(0, X + 1, (n1, L)) + (rng.integers(0, 2, (1, L)) if rng.random() < 0.5 else 0)
        body2 = rng.integers(0, X + 1, (n2, L))
        if rng.random() < 0.2:
            body1[:, 1] = body2[0, 1]
            body2[:, 1] = body2[0, 1]        # zero variance in both sets on one column
    elif regime == 'R' and prec == 'float64' and not case.get('unit') and rng.random() < 0.3:
        # integer traces of large magnitude (32 / 64-bit samples): sums of squares far beyond 2^63, judged with the rounding bound
        tdt = ['int32', 'int64', 'uint32'][int(rng.integers(3))]
        mag = float(rng.choice([3e4, 1.5e9, 2.1e9])) if tdt != 'int64' else float(rng.choice([1.5e9, 4e12]))
        body1 = np.round(mag + rng.normal(0, mag / 50, (n1, L)))
        body2 = np.round(mag * 1.001 + rng.normal(0, mag / 40, (n2, L)))
        t.count('large_magnitude_integer_traces')
    else:
        if tdt not in ('float32', 'float64'):
            tdt = 'float64'
        off = float(rng.choice([0.0, 20.0, 500.0]))
        unit = float(case.get('unit') or rng.choice([1.0, 1.0, 1.0, 1e-3, 1e-6, 1e-9, 1e4]))
        if case.get('unit'):
            off = 0.0            # no cancellation: every entry is decidable, in single precision too
        body1 = unit * (off + rng.normal(0, 1, (n1, L)))
        body2 = unit * (off + 0.3 + rng.normal(0, 1.5, (n2, L)))
        t.count('trace_unit:%g' % unit)
    s1 = body1.astype(tdt)
    s2 = body2.astype(tdt)
    s1[:, cid] = np.arange(n1)
    s2[:, cid] = off2 + np.arange(n2)
    # frame: its first element is the id column
    others = [c for c in range(1, L)]
    fk = int(rng.integers(6))
    if fk == 5 and L >= 4:
        # end points span exactly the length, but the indices in between are shuffled / repeated (looks consecutive, is not)
        m = int(rng.integers(4, L + 1))
        mid = rng.permutation(np.arange(1, m - 1)).tolist()
        if rng.random() < 0.3:
            mid[0] = mid[-1]
        lst = [0] + mid + [m - 1]
        frame, fidx = (lst if rng.random() < 0.5 else np.array(lst)), lst
    elif fk == 0 or fk == 5:
        frame, fidx = None, list(range(L))
    elif fk == 1:
        step = int(rng.integers(1, 3))
        stop = int(rng.integers(2, L + 1))
        frame, fidx = slice(0, stop, step), list(range(0, stop, step))
    elif fk == 2:
        pick = rng.permutation(others)[:int(rng.integers(1, len(others) + 1))].tolist()
        frame, fidx = [0] + pick, [0] + pick
    elif fk == 3:
        pick = rng.choice(others, int(rng.integers(1, len(others) + 2))).tolist()
        frame, fidx = np.array([0] + pick), [0] + pick
    else:
        stop = int(rng.integers(2, L + 1))
        frame, fidx = range(0, stop), list(range(0, stop))
    if len(fidx) < 2:
        frame, fidx = None, list(range(L))
    # fault position
    nb = [-(-n1 // bs), -(-n2 // bs)]
    events = []
    delays = dict(mode=pert, skew=int(rng.integers(2)), rnd=random.Random(case['sub'] % (2 ** 31)))
    armed = dict(on=False, set=None, batch=None, exc=None, seen=[0, 0])

    @scared.preprocess
    def spy(traces):
        ids = traces[:, 0].astype(int).tolist()
        which = 1 if ids and ids[0] >= off2 else 0
        with _lock:
            k = next(_seq)
            events.append((k, threading.current_thread(), which, ids, threading.current_thread() is threading.main_thread()))
            fire = False
            if armed['on'] and not threading.current_thread() is threading.main_thread():
                b = armed['seen'][which]
                armed['seen'][which] += 1
                fire = which == armed['set'] and b == armed['batch']
            d = delays['rnd'].random()
        if fire:
            raise EXC[armed['exc']](f'injected failure in the accumulator of set {which} at batch {armed["batch"]}')
        if delays['mode'] == 'delays':
            time.sleep((0.003 if which == delays['skew'] else 0.0005) * d)
        return np.ascontiguousarray(traces[:, 1:])

    chain = [spy]
    cdesc = []
    for _ in range(int(rng.choice([0, 0, 1, 2]))):
        kk = int(rng.integers(3))
        if unit != 1.0:
            kk = 2               # scaled traces: neither squared (underflow) nor shifted by a unit-less ramp
        if kk == 0 and regime == 'E' and prec == 'float32':
            continue
        if kk == 0:
            chain.append(scared.preprocesses.square)
            cdesc.append('square')
        elif kk == 1:
            @scared.preprocess
            def ramp(traces):
                return traces + (np.arange(traces.shape[1]) % 3).astype(traces.dtype)[None, :]
            chain.append(ramp)
            cdesc.append('ramp')
        else:
            @scared.preprocess
            def drop_last(traces):
                return traces[:, :-1] if traces.shape[1] > 1 else traces
            chain.append(drop_last)
            cdesc.append('drop_last')

    def transformed(s):
        x = s[:, fidx][:, 1:]
        for p in chain[1:]:
            x = p(np.ascontiguousarray(x))
        return np.asarray(x)

    cuts1 = [0] + (sorted(rng.choice(np.arange(1, n1), nruns - 1, replace=False).tolist()) if nruns > 1 else []) + [n1]
    cuts2 = [0] + (sorted(rng.choice(np.arange(1, n2), nruns - 1, replace=False).tolist()) if nruns > 1 else []) + [n2]
    info = dict(n1=n1, n2=n2, T=len(fidx) - 1, dtype=tdt, batch=bs, frame=repr(frame)[:50], chain=cdesc, precision=prec, regime=regime, perturbation=pert, runs=[cuts1, cuts2], fault=fault)
    ths1 = scared.traces.read_ths_from_ram(samples=s1)
    ths2 = scared.traces.read_ths_from_ram(samples=s2)

    # ---- update call/return recorder (class-level, for this case only)
    ulog = []
    orig_update = tt.TTestThreadAccumulator.update

    def rec_update(self, traces):
        with _lock:
            ulog.append((next(_seq), 'call', id(self), threading.get_ident(), int(traces.shape[0])))
        try:
            return orig_update(self, traces)
        finally:
            with _lock:
                ulog.append((next(_seq), 'return', id(self), threading.get_ident(), int(traces.shape[0])))
    tt.TTestThreadAccumulator.update = rec_update
    old_switch = sys.getswitchinterval()
    old_threads = numba.get_num_threads()
    nthreads = None
    an = scared.TTestAnalysis(precision=prec)
    yi = _YieldInjection(case['sub'] % 1000003, pert == 'yield')
    raised = None
    prev_result = None
    try:
        scared.set_batch_size(bs)
        if pert == 'switch':
            sys.setswitchinterval(1e-6)
        if pert == 'threads':
            nthreads = int(rng.choice([1, 2, 3, 5, 8, 16]))
            numba.set_num_threads(min(nthreads, numba.config.NUMBA_NUM_THREADS))
            t.count('thread_count_variations')
        with yi:
            for r in range(nruns):
                cont = scared.TTestContainer(ths1[cuts1[r]:cuts1[r + 1]], ths2[cuts2[r]:cuts2[r + 1]], frame=frame, preprocesses=list(chain))
                last = r == nruns - 1
                if fault and last:
                    m = [cuts1[r + 1] - cuts1[r], cuts2[r + 1] - cuts2[r]][fault['thread']]
                    nbr = -(-m // bs)
                    pos = dict(first=0, middle=nbr // 2, last=nbr - 1).get(fault['where'], int(rng.integers(nbr)))
                    armed.update(on=True, set=fault['thread'], batch=pos, exc=fault['exc'], seen=[0, 0])
                    info['fault_batch'] = pos
                    prev_result = None if not hasattr(an, 'result') else np.array(an.result, copy=True)
                    t.count('faults_injected')
                    try:
                        an.run(cont)
                    except Exception as e:
                        raised = e
                    armed['on'] = False
                else:
                    an.run(cont)
                    t.count('runs')
                    # ---- the result after this run is the Welch statistic of everything run so far
                    a_all, b_all = transformed(s1[:cuts1[r + 1]]), transformed(s2[:cuts2[r + 1]])
                    _judge(t, an, a_all, b_all, prec, regime, dict(info, after_run=r))
        if pert == 'yield':
            t.count('yield_injection_runs')
            t.count('yield_injection_line_events', yi.hits)
    finally:
        tt.TTestThreadAccumulator.update = orig_update
        scared.set_batch_size(None)
        sys.setswitchinterval(old_switch)
        numba.set_num_threads(old_threads)
    if nruns > 1:
        t.count('multi_run_sequences')
    # ---- fault clause
    if fault:
        ok = raised is not None and type(raised) is EXC[fault['exc']] and 'injected failure' in str(raised)
        t.check(ok, 'thread_failure_not_reraised_to_caller', lambda: dict(info, raised=repr(raised)[:200]))
        if ok:
            t.count('faults_reraised')
        if prev_result is None:
            t.check(not hasattr(an, 'result'), 'result_produced_despite_thread_failure', lambda: dict(info, result=np.asarray(an.result).tolist()[:5]))
        else:
            t.check(hasattr(an, 'result') and tol.same(an.result, prev_result), 'result_refreshed_despite_thread_failure', lambda: dict(info, diff=tol.first_diff(an.result, prev_result)))
    # ---- trace specification over the event log
    th_events = [e for e in events if not e[4]]
    t.count('batch_events', len(th_events))
    upto = [cuts1[-1], cuts2[-1]] if not fault else None
    for which, n_set, base in ((0, n1, 0), (1, n2, off2)):
        ids = [i for e in th_events if e[2] == which for i in e[3]]
        t.count('ids_logged', len(ids))
        if fault:
            # before the failure every id is still consumed at most once and in order
            t.check(ids == sorted(set(ids)) and all(base <= i < base + n_set for i in ids), 'traces_not_consumed_once_in_order', lambda: dict(info, set=which, ids=ids[:40]))
        else:
            t.check(ids == list(range(base, base + n_set)), 'traces_not_consumed_once_in_order', lambda: dict(info, set=which, ids=ids[:40], expected=n_set))
    # a thread only ever sees ids of one set within a run (no cross-talk)
    by_thread = {}
    for e in th_events:
        by_thread.setdefault(e[1], set()).add(e[2])
    # (the accumulator object is the thread object and is restarted for the next run, so this also holds across runs)
    t.check(all(len(v) == 1 for v in by_thread.values()), 'thread_saw_both_sets', lambda: dict(info, threads={str(id(k)): sorted(v) for k, v in by_thread.items()}))
    for e in th_events:
        t.check(all((i >= off2) == (e[2] == 1) for i in e[3]), 'batch_mixes_the_two_sets', lambda: dict(info, ids=e[3][:20]))
    if not fault:
        acc = an.accumulators
        t.check(int(acc[0].processed_traces) == n1 and int(acc[1].processed_traces) == n2, 'processed_traces_differs_from_set_size',
                lambda: dict(info, processed=[int(acc[0].processed_traces), int(acc[1].processed_traces)]))
        t.check(not np.shares_memory(acc[0].sum, acc[1].sum) and not np.shares_memory(acc[0].sum_squared, acc[1].sum_squared) and not np.shares_memory(acc[0].sum, acc[0].sum_squared),
                'accumulators_share_a_buffer', info)
    # ---- observed schedule
    t.count('update_calls', sum(1 for u in ulog if u[1] == 'call'))
    open_calls, overlaps = {}, 0
    for (_k, what, oid, _th, _n) in sorted(ulog):
        if what == 'call':
            if any(o != oid for o in open_calls):
                overlaps += 1
            open_calls[oid] = True
        else:
            open_calls.pop(oid, None)
    t.count('update_overlaps_observed', overlaps)
    order = ''.join(str(e[2]) for e in sorted(th_events, key=lambda e: e[0]))
    switches = sum(1 for a, b in zip(order, order[1:]) if a != b)
    t.count('thread_switches_observed', switches)
    sig = f"{n1}|{n2}|{bs}|{tdt}|{prec}|{regime}|{pert}|{nthreads}|{fault}|{core.digest(order)}"
    return t.result(sig=sig, sample=dict(case=case, derived=info, batch_event_order=order[:80], update_overlaps=overlaps, thread_switches=switches))


def _judge(t, an, a, b, prec, regime, info):
    got = np.asarray(an.result, dtype=float)
    val, scale, undef = oracles.welch_t(a, b)
    n = max(len(a), len(b))
    eps = tol.eps_of(prec)
    if regime == 'E':
        # the preprocess chain may have pushed the values out of the exact regime: judge with the rounding bound then
        big = max(float(np.max(np.abs(a))) if a.size else 0.0, float(np.max(np.abs(b))) if b.size else 0.0)
        if n * big * big >= gen.LIMIT[str(np.dtype(prec))]:
            regime = 'R'
            t.count('demoted_to_rounding_regime')
    t.count('results_vs_welch')
    if not t.check(got.shape == val.shape, 'result_shape', lambda: dict(info, got=got.shape, expected=val.shape)):
        return
    tl = (tol.C_E if regime == 'E' else tol.C_R * n) * eps * scale
    thr = tol.UNDECIDABLE_E if regime == 'E' else tol.UNDECIDABLE_R
    decid = ~undef & (tl <= thr * np.maximum(np.abs(val), 1.0))
    t.count('entries_undecidable_by_rounding', int((~undef & ~decid).sum()))
    t.count('entries_compared', int(decid.sum()))
    with np.errstate(all='ignore'):
        bad = decid & ~(np.abs(got - val) <= tl)
    if decid.any():
        with np.errstate(all='ignore'):
            t.metric('ratio_' + regime, float(np.nanmax(np.where(decid, np.abs(got - val) / np.maximum(tl, 1e-300), 0))))
    t.check(not bad.any(), 'result_is_not_welch_t', lambda: dict(info, index=int(np.argwhere(bad)[0][0]), got=float(got[np.argwhere(bad)[0][0]]), expected=float(val[np.argwhere(bad)[0][0]]),
                                                              tol=float(tl[np.argwhere(bad)[0][0]]), n_bad=int(bad.sum())))
    if regime == 'E':
        # the sufficient statistics themselves: exact integer sums, whatever the batching / schedule / thread count
        t.count('accumulators_vs_exact_sums')
        for acc, x in zip(an.accumulators, (a, b)):
            xi = np.asarray(x).astype(np.int64).astype(object)
            es = np.array([float(v) for v in xi.sum(0)])
            eq = np.array([float(v) for v in (xi * xi).sum(0)])
            t.check(tol.same(np.asarray(acc.sum, float), es) and tol.same(np.asarray(acc.sum_squared, float), eq), 'accumulator_differs_from_exact_sums',
                    lambda: dict(info, sum_diff=tol.first_diff(np.asarray(acc.sum, float), es), sq_diff=tol.first_diff(np.asarray(acc.sum_squared, float), eq)))
