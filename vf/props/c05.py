"""C05 - AES encrypt/decrypt and every intermediate stop point conform to FIPS-197.

Oracle: vf.refs.aes_ref (GF(2^8) arithmetic from first principles, every state recorded), self-tested at
worker start against FIPS-197 appendix vectors and pycryptodome.  Monitors: caller arrays are read-only and
byte-snapshotted; module-level tables and round templates of scared.aes.base are digest-checked after every
case (an operation mutating a shared table would be a history bug).
"""
import numpy as np

from .. import core
from ..refs import aes_ref as R

ID = 'C05'
LEVEL = 'exploration'
WORKERS = {'quick': 4, 'thorough': 14}
BUDGET_S = {'quick': 60, 'thorough': 360}
REQUIRED_COUNTERS = ['stop_points', 'blocks', 'primitive_values', 'roundtrips', 'inputs_unchanged', 'history_calls']
RULE = ('every (at_round in 0..Nr, after_step in 0..3, direction) stop point is queried for each case; a case = '
        '(key size, direction, one of the 4 broadcasting shapes, input dtype, block/key structure: random | all-00 | all-FF | '
        'walking byte over the 256 values at one position | default-arguments); primitives: every byte value at every '
        'position, all 4x256 single-byte columns. Non-trivial = at least one state compared with the reference; distinct by '
        '(key size, direction, shape, dtype, structure, sub-seed)')
ASSUMPTIONS = ['vf.refs.aes_ref is a correct FIPS-197 implementation (self-tested against appendix A/C vectors and pycryptodome)',
               'byte values are given in an integer dtype able to hold them (int8 only up to 127)']

DTYPES = ['uint8', 'int16', 'int32', 'int64', 'uint16', 'uint64', 'uint32', 'int8', '>u2', '>i4', '>u8']       # incl. non-native byte order
SHAPES = ['one_one', 'many_one', 'one_many', 'paired']


def exhaustive_note(tier):
    return ['all 2*(Nr+1)*4 stop points for the three key sizes', 'S-box / inverse S-box on all 256 values at all 16 positions',
            'mix_column / inv_mix_column on all 4*256 single-byte columns']


def setup():
    err = R.self_test()
    if err:
        raise core.Inconclusive('AES reference self-test failed: ' + err)


def cases(tier, seed):
    out = [dict(gen='primitives', must=True), dict(gen='tables', must=True)]
    k = 0
    # deciding grid first: key size x direction x shape, dtype and structure rotating
    for nk in (16, 24, 32):
        for direction in ('enc', 'dec'):
            for shape in SHAPES:
                out.append(dict(gen='stops', nk=nk, dir=direction, shape=shape, dtype=DTYPES[k % len(DTYPES)],
                                struct='random', n=6, sub=core.subseed('C05', seed, k), must=True))
                k += 1
    for nk in (16, 24, 32):
        for direction in ('enc', 'dec'):
            for struct in ('zeros', 'ones', 'defaults'):
                out.append(dict(gen='stops', nk=nk, dir=direction, shape=SHAPES[k % 4], dtype=DTYPES[k % len(DTYPES)],
                                struct=struct, n=3, sub=core.subseed('C05', seed, k), must=True))
                k += 1
            out.append(dict(gen='stops', nk=nk, dir=direction, shape=['one_many', 'paired'][k % 2], dtype='uint8', struct='uniform_keys', n=5, sub=core.subseed('C05u', seed, k), must=True))
            k += 1
    out.append(dict(gen='threads', sub=core.subseed('C05t', seed), must=True))
    for j, nbig in enumerate([32773, 65537] if tier == 'quick' else [32773, 65537, 100000, 32768, 40000, 70001]):
        out.append(dict(gen='bigbatch', n=nbig, sub=core.subseed('C05b', seed, j), must=j < 2))
    # walking byte: all 256 values at one position of the block (many_one) or of the key (one_many)
    positions = range(16) if tier == 'thorough' else [(seed + 5 * j) % 16 for j in range(3)]
    for nk in (16, 24, 32):
        for direction in ('enc', 'dec'):
            for pos in positions:
                out.append(dict(gen='stops', nk=nk, dir=direction, shape='many_one', dtype='uint8', struct='walk_block', pos=int(pos),
                                n=256, sub=core.subseed('C05', seed, k)))
                k += 1
                out.append(dict(gen='stops', nk=nk, dir=direction, shape='one_many', dtype='uint8', struct='walk_key',
                                pos=int((pos * 7 + nk) % nk), n=256, sub=core.subseed('C05', seed, k)))
                k += 1
    # call histories on preallocated buffers refilled in place (state leaking from one call into the next: caches, shared round lists)
    for j in range(6 if tier == 'quick' else 200):
        out.append(dict(gen='history', calls=40, sub=core.subseed('C05h', seed, j), must=j < 3))
    n_rand = 80 if tier == 'quick' else 6000
    rs = np.random.default_rng(core.subseed('C05r', seed))
    for j in range(n_rand):
        out.append(dict(gen='stops', nk=int(rs.choice([16, 24, 32])), dir=['enc', 'dec'][int(rs.integers(2))],
                        shape=SHAPES[int(rs.integers(4))], dtype=DTYPES[int(rs.integers(len(DTYPES)))], struct='random',
                        n=int(rs.choice([1, 2, 5, 17, 40])), sub=int(rs.integers(2 ** 62))))
    return out


def _ro(a):
    """Read-only view keeping the memory layout of `a` (numpy then refuses any write into the caller's array when it happens)."""
    v = np.asarray(a).view()
    v.setflags(write=False)
    return v


class _CallerArray(np.ndarray):
    """A trivial ndarray subclass, standing for numpy.memmap and the like."""


def _tables_digest():
    from scared.aes import base as B
    parts = [B.SBOX, B.INV_SBOX, B.RCON, B.SHIFT_ROWS, B.INV_SHIFT_ROWS]
    for name in dir(B):
        if name.startswith('XTIME'):
            parts.append(getattr(B, name))
    d = core.digest([p.tobytes() for p in parts])
    templ = [[f.__name__ for f in getattr(B, n)] for n in ('_ENC_FIRST_ROUND', '_ENC_ROUND', '_ENC_LAST_ROUND', '_DEC_FIRST_ROUND',
                                                           '_DEC_ROUND', '_DEC_LAST_ROUND')]
    return d + core.digest(templ)


_T0 = None


def _build_inputs(case, rng):
    nk, n, struct, shape = case['nk'], case['n'], case['struct'], case['shape']
    dt = np.dtype(case['dtype'])
    hi = 128 if dt == np.dtype('int8') else 256
    if struct == 'uniform_keys':
        # every key is one byte repeated, the keys of the batch differ (a batch of 'constant' keys is not a constant batch)
        nb = 1 if shape in ('one_one', 'one_many') else n
        nkeys = 1 if shape in ('one_one', 'many_one') else n
        blocks = rng.integers(0, hi, (nb, 16))
        vals = rng.permutation(hi)[:nkeys]
        keys = np.repeat(vals[:, None], nk, axis=1)
        return blocks, keys
    nb = 1 if shape in ('one_one', 'one_many') else n
    nkeys = 1 if shape in ('one_one', 'many_one') else n
    blocks = rng.integers(0, hi, (nb, 16))
    keys = rng.integers(0, hi, (nkeys, nk))
    if struct == 'zeros':
        blocks[:] = 0
        keys[:] = 0
    elif struct == 'ones':
        blocks[:] = hi - 1
        keys[:] = hi - 1
    elif struct == 'walk_block':
        blocks = np.repeat(blocks[:1], 256, axis=0)
        blocks[:, case['pos']] = np.arange(256)
    elif struct == 'walk_key':
        keys = np.repeat(keys[:1], 256, axis=0)
        keys[:, case['pos']] = np.arange(256)
    return blocks, keys


def run_case(case):
    global _T0
    import scared
    from scared.aes import base as B
    t = core.Tally()
    if _T0 is None:
        _T0 = _tables_digest()
    g = case['gen']
    if g == 'tables':
        # tables against first principles
        t.check(B.SBOX.tolist() == R.SB, 'sbox_table', lambda: dict(first_bad=int(np.argwhere(B.SBOX != np.array(R.SB))[0][0])))
        t.check(B.INV_SBOX.tolist() == R.ISB, 'inv_sbox_table', None)
        t.count('primitive_values', 512)
        for name in dir(B):
            if name.startswith('XTIME_'):
                m = int(name.split('_')[1])
                tab = getattr(B, name)
                exp = [R.gmul(m, x) for x in range(256)]
                t.count('primitive_values', 256)
                t.check(tab.tolist() == exp, 'xtime_table', lambda: dict(table=name, first_bad=int(np.argwhere(tab != np.array(exp))[0][0])))
        t.count('stop_points', 0)
        return t.result(sig='tables', sample=dict(case=case, comparisons=t.checks))
    if g == 'primitives':
        return _primitives(t, case)

    if g == 'history':
        return _history(t, case)
    if g == 'threads':
        return _threads(t, case)
    if g == 'bigbatch':
        return _bigbatch(t, case)
    rng = np.random.default_rng(case['sub'])
    blocks, keys = _build_inputs(case, rng)
    dt = np.dtype(case['dtype'])
    shape = case['shape']
    nb, nkeys = len(blocks), len(keys)
    from .. import gen as _gen
    lay = np.random.default_rng(case['sub'] ^ 0x5eed)
    arr_b = _ro(_gen.layout_nd(lay, blocks.astype(dt)) if shape in ('many_one', 'paired') else blocks[0].astype(dt))
    arr_k = _ro(_gen.layout_nd(lay, keys.astype(dt)) if shape in ('one_many', 'paired') else keys[0].astype(dt))
    if (case['sub'] >> 3) % 3 == 0:
        # inputs that are instances of an ndarray subclass (what numpy.memmap or a record view hands over): still read-only, still the caller's memory
        arr_b, arr_k = arr_b.view(_CallerArray), arr_k.view(_CallerArray)
        t.count('ndarray_subclass_inputs')
    t.count('layout:' + ('C' if arr_b.flags.c_contiguous and arr_k.flags.c_contiguous else 'non_C'))
    snap = (arr_b.tobytes(), arr_k.tobytes())
    n = max(nb, nkeys)
    nr = case['nk'] // 4 + 6
    # reference states for each (block, key) pair
    ref = []
    for i in range(n):
        b = blocks[i if nb > 1 else 0].tolist()
        k = keys[i if nkeys > 1 else 0].tolist()
        st, final = (R.enc_states if case['dir'] == 'enc' else R.dec_states)(b, k)
        ref.append((st, final))
    fn = scared.aes.encrypt if case['dir'] == 'enc' else scared.aes.decrypt
    exp_shape = (16,) if n == 1 else (n, 16)
    t.count('blocks', n)
    if case['struct'] == 'defaults':
        # default arguments = full cipher; also explicit at_round=None with each step of the last round
        got = fn(arr_b, arr_k)
        exp = np.array([r[1] for r in ref], dtype='uint8').reshape(exp_shape)
        t.count('stop_points')
        t.check(got.shape == exp_shape and got.dtype == np.uint8 and np.array_equal(got, exp), 'full_cipher_default_args',
                lambda: dict(case=case, got=np.asarray(got).tolist(), expected=exp.tolist()))
        # at_round left out, after_step given: the state after that step of the last round
        for step in range(4):
            got = fn(arr_b, arr_k, after_step=step)
            exp = np.array([r[0][(nr, step)] for r in ref], dtype='uint8').reshape(exp_shape)
            t.count('stop_points')
            t.check(got.shape == exp_shape and np.array_equal(got, exp), f"stop_point_{case['dir']}",
                    lambda: dict(nk=case['nk'], dir=case['dir'], at_round='left out', after_step=step, shape=shape, dtype=str(dt)))
    for rnd in range(nr + 1):
        for step in range(4):
            if case['dir'] == 'enc':
                got = fn(arr_b, arr_k, at_round=rnd, after_step=step)
            else:
                got = fn(arr_b, arr_k, at_round=rnd, after_step=step)
            exp = np.array([r[0][(rnd, step)] for r in ref], dtype='uint8').reshape(exp_shape)
            t.count('stop_points')
            ok = got.shape == exp_shape and got.dtype == np.uint8 and np.array_equal(got, exp)
            t.check(ok, f"stop_point_{case['dir']}",
                    lambda: dict(nk=case['nk'], dir=case['dir'], at_round=rnd, after_step=step, shape=shape, dtype=str(dt),
                                 block=blocks[0].tolist(), key=keys[0].tolist(), got=np.asarray(got).reshape(-1, 16)[0].tolist() if np.size(got) >= 16 else np.shape(got),
                                 expected=exp.reshape(-1, 16)[0].tolist(), rows_bad=int(np.sum(np.any(np.asarray(got).reshape(exp.shape) != exp, axis=-1))) if np.shape(got) == exp.shape else -1))
    # round trip through the other direction, with the real API
    full = fn(arr_b, arr_k)
    inv = scared.aes.decrypt if case['dir'] == 'enc' else scared.aes.encrypt
    if shape == 'one_many' and n > 1:
        back = inv(full, arr_k)
        orig = np.repeat(blocks[:1], n, axis=0).astype('uint8')
    else:
        back = inv(full, arr_k)
        orig = blocks.astype('uint8').reshape(exp_shape) if nb == n else blocks[0].astype('uint8')
    t.count('roundtrips')
    t.check(np.array_equal(np.asarray(back).reshape(-1, 16), np.asarray(orig).reshape(-1, 16)), 'roundtrip', lambda: dict(case=case))
    t.count('inputs_unchanged')
    t.check((arr_b.tobytes(), arr_k.tobytes()) == snap, 'input_modified', lambda: dict(case=case))
    t.check(_tables_digest() == _T0, 'shared_table_modified', lambda: dict(case=case))
    sig = '|'.join(str(case.get(k)) for k in ('nk', 'dir', 'shape', 'dtype', 'struct', 'pos', 'n', 'sub'))
    return t.result(sig=sig, sample=dict(case=case, stop_points=(nr + 1) * 4, blocks=n, comparisons=t.checks))


def _bigbatch(t, case):
    """Tens of thousands of blocks (or keys) in one call: rows at the start, around every multiple of 2^15 / 2^16 and at the very end are
    compared with the reference (a chunked implementation must not lose the tail)."""
    import scared
    rng = np.random.default_rng(case['sub'])
    n = case['n']
    nk = int(rng.choice([16, 24, 32]))
    many_keys = bool(rng.random() < 0.3)
    blocks = rng.integers(0, 256, (n, 16)).astype('uint8') if not many_keys else rng.integers(0, 256, 16).astype('uint8')
    keys = rng.integers(0, 256, (n, nk)).astype('uint8') if many_keys else rng.integers(0, 256, nk).astype('uint8')
    rows = sorted(set([0, 1, n - 1, n - 2, n // 2] + [m + d for m in range(32768, n, 32768) for d in (-1, 0, 1) if 0 <= m + d < n] + rng.integers(0, n, 6).tolist()))
    for direction in ('enc', 'dec'):
        fn = scared.aes.encrypt if direction == 'enc' else scared.aes.decrypt
        nr = nk // 4 + 6
        for (rnd, step) in ((None, None), (int(rng.integers(0, nr + 1)), int(rng.integers(0, 4)))):
            got = fn(blocks, keys) if rnd is None else fn(blocks, keys, at_round=rnd, after_step=step)
            t.count('stop_points')
            ok = np.shape(got) == (n, 16)
            bad = None
            if ok:
                for r in rows:
                    b = (blocks[r] if not many_keys else blocks).tolist()
                    k = (keys[r] if many_keys else keys).tolist()
                    st, final = (R.enc_states if direction == 'enc' else R.dec_states)(b, k)
                    exp = final if rnd is None else st[(rnd, step)]
                    t.count('blocks')
                    if bad is None and got[r].tolist() != exp:
                        bad = dict(row=r, got=got[r].tolist(), expected=exp)
            t.check(ok and bad is None, 'big_batch_row_differs', lambda: dict(n=n, nk=nk, direction=direction, at_round=rnd, after_step=step, many_keys=many_keys, shape=np.shape(got), first_bad=bad))
    for c in ('roundtrips', 'inputs_unchanged', 'primitive_values', 'history_calls'):
        t.count(c, 0)
    return t.result(sig=f"bigbatch|{n}|{nk}|{many_keys}", sample=dict(case=case, rows_checked=len(rows)))


def _threads(t, case):
    """Two threads call the cipher at the same time with different inputs (per-call state must not be shared between calls)."""
    import sys
    import threading
    import scared
    rng = np.random.default_rng(case['sub'])
    jobs = []
    for j in range(2):
        for c in range(25):
            nk = int(rng.choice([16, 24, 32]))
            n = int(rng.choice([1, 3, 400]))
            key = rng.integers(0, 256, nk).astype('uint8')
            blk = rng.integers(0, 256, (n, 16)).astype('uint8') if n > 1 else rng.integers(0, 256, 16).astype('uint8')
            direction = ['enc', 'dec'][int(rng.integers(2))]
            rnd, step = int(rng.integers(0, nk // 4 + 7)), int(rng.integers(0, 4))
            jobs.append((j, direction, key, blk, rnd, step))
    results = {}
    errors = []

    def work(j):
        for idx, (jj, direction, key, blk, rnd, step) in enumerate(jobs):
            if jj != j:
                continue
            try:
                fn = scared.aes.encrypt if direction == 'enc' else scared.aes.decrypt
                results[idx] = fn(blk, key, at_round=rnd, after_step=step)
            except Exception as e:      # a shape / state error caused by the other thread is a witness as well
                errors.append((idx, repr(e)[:200]))
    old = sys.getswitchinterval()
    sys.setswitchinterval(1e-5)
    try:
        ths = [threading.Thread(target=work, args=(j,)) for j in range(2)]
        for th in ths:
            th.start()
        for th in ths:
            th.join()
    finally:
        sys.setswitchinterval(old)
    t.check(not errors, 'concurrent_call_failed', lambda: dict(errors=errors[:3]))
    for idx, (jj, direction, key, blk, rnd, step) in enumerate(jobs):
        if idx not in results:
            continue
        b2 = blk.reshape(-1, 16)
        exp = np.array([(R.enc_states if direction == 'enc' else R.dec_states)(row.tolist(), key.tolist())[0][(rnd, step)] for row in b2[:3]], dtype='uint8')
        got = np.asarray(results[idx]).reshape(-1, 16)[:3]
        t.count('concurrent_calls')
        t.count('stop_points')
        t.check(np.array_equal(got, exp), 'result_depends_on_a_concurrent_call', lambda: dict(job=idx, thread=jj, direction=direction, at_round=rnd, after_step=step))
    for c in ('roundtrips', 'inputs_unchanged', 'primitive_values', 'blocks', 'history_calls'):
        t.count(c, 0)
    return t.result(sig='threads', sample=dict(case=case, calls=len(jobs)))


def _history(t, case):
    """A sequence of calls sharing the SAME key / block array objects, rewritten in place between calls."""
    import scared
    rng = np.random.default_rng(case['sub'])
    kbuf = {(nk, many): (np.zeros((5, nk), dtype='uint8') if many else np.zeros(nk, dtype='uint8')) for nk in (16, 24, 32) for many in (False, True)}
    bbuf = {many: (np.zeros((5, 16), dtype='uint8') if many else np.zeros(16, dtype='uint8')) for many in (False, True)}
    log = []
    kept = []
    for c in range(case['calls']):
        nk = int(rng.choice([16, 24, 32])) if rng.random() < 0.4 or not log else log[-1][0]      # mostly the same key size as the previous call
        many_k, many_b = bool(rng.random() < 0.3), bool(rng.random() < 0.4)
        kb, bb = kbuf[(nk, many_k)], bbuf[many_b]
        if rng.random() < 0.8 or c == 0:
            kb[...] = rng.integers(0, 256, kb.shape)            # same object, new content
        if rng.random() < 0.8 or c == 0:
            bb[...] = rng.integers(0, 256, bb.shape)
        direction = ['enc', 'dec'][int(rng.integers(2))]
        nr = nk // 4 + 6
        fn = scared.aes.encrypt if direction == 'enc' else scared.aes.decrypt
        full = rng.random() < 0.4
        rnd, step = int(rng.integers(0, nr + 1)), int(rng.integers(0, 4))
        snap = (kb.tobytes(), bb.tobytes())
        got = fn(bb, kb) if full else fn(bb, kb, at_round=rnd, after_step=step)
        n = 5 if (many_k or many_b) else 1
        exp = []
        for i in range(n):
            b = (bb[i] if many_b else bb).tolist()
            k = (kb[i] if many_k else kb).tolist()
            st, final = (R.enc_states if direction == 'enc' else R.dec_states)(b, k)
            exp.append(final if full else st[(rnd, step)])
        exp = np.array(exp, dtype='uint8').reshape((16,) if n == 1 else (n, 16))
        log.append((nk, direction, 'full' if full else (rnd, step), many_k, many_b))
        # an array returned earlier must not change when the API is called again (no shared output buffer)
        for (old_arr, old_copy, old_call) in kept:
            t.check(np.array_equal(old_arr, old_copy), 'earlier_result_overwritten_by_later_call', lambda: dict(case=case, call=c, earlier_call=old_call, history=log[-4:]))
        kept = (kept + [(got, np.array(got, copy=True), c)])[-3:]
        t.count('stop_points')
        t.count('history_calls')
        t.count('blocks', n)
        t.check(np.shape(got) == exp.shape and np.array_equal(got, exp), 'result_depends_on_earlier_calls',
                lambda: dict(case=case, call=c, history=log[-4:], key=np.asarray(kb).reshape(-1, nk)[0].tolist(), block=np.asarray(bb).reshape(-1, 16)[0].tolist(),
                             got=np.asarray(got).reshape(-1, 16)[0].tolist(), expected=exp.reshape(-1, 16)[0].tolist()))
        t.check((kb.tobytes(), bb.tobytes()) == snap, 'input_modified', lambda: dict(case=case, call=c))
        if rng.random() < 0.3:
            ks = np.asarray(scared.aes.key_schedule(kb if not many_k else kb[0]))
            t.check(ks.reshape(-1, 16).tolist() == R.expand((kb if not many_k else kb[0]).tolist()), 'key_schedule_depends_on_earlier_calls', lambda: dict(case=case, call=c))
    t.check(_tables_digest() == _T0, 'shared_table_modified', lambda: dict(case=case))
    for c in ('roundtrips', 'inputs_unchanged', 'primitive_values'):
        t.count(c, 0)
    return t.result(sig=f"history|{case['sub']}", sample=dict(case=case, calls=case['calls'], last_calls=log[-5:]))


def _primitives(t, case):
    import scared
    A = scared.aes
    rng = np.random.default_rng(7)
    base = rng.integers(0, 256, 16)
    # S-boxes: every value at every position
    for pos in range(16):
        st = np.repeat(base[None, :], 256, axis=0).astype('uint8')
        st[:, pos] = np.arange(256)
        st = _ro(st)
        snap = st.tobytes()
        for f, ref in ((A.sub_bytes, R.sub), (A.inv_sub_bytes, R.isub)):
            got = f(st)
            exp = np.array([ref(row) for row in st.tolist()], dtype='uint8')
            t.count('primitive_values', 256)
            t.check(got.shape == st.shape and np.array_equal(got, exp), 'prim_' + f.__name__, lambda: dict(pos=pos))
        t.check(st.tobytes() == snap, 'input_modified', 'sub_bytes')
    # permutations: identity-valued state pins every position, + random, + 1-D input
    states = [np.arange(16), np.arange(16)[::-1] * 3 + 7] + [rng.integers(0, 256, 16) for _ in range(20)]
    st = _ro(np.array(states, dtype='uint8'))
    for f, ref in ((A.shift_rows, R.shr), (A.inv_shift_rows, R.ishr), (A.mix_columns, R.mix), (A.inv_mix_columns, R.imix)):
        got = f(st)
        exp = np.array([ref(row) for row in st.tolist()], dtype='uint8')
        t.count('primitive_values', len(states))
        t.check(got.shape == st.shape and np.array_equal(got, exp), 'prim_' + f.__name__, lambda: dict(f=f.__name__, got=got[0].tolist(), expected=exp[0].tolist()))
        got1 = f(_ro(st[3].copy()))
        t.check(got1.shape == (16,) and np.array_equal(got1, exp[3]), 'prim_1d_' + f.__name__, None)
        # states with several leading dimensions (a, b, 16): every state is still processed on its own
        for (a, b) in ((3, 3), (5, 2), (2, 1)):
            st3 = np.asarray(st)[:a * b].reshape(a, b, 16)
            g3 = f(_ro(st3.copy()))
            t.count('primitive_values', a * b)
            t.check(np.shape(g3) == (a, b, 16) and np.array_equal(np.asarray(g3).reshape(-1, 16), exp[:a * b]), 'prim_nd_' + f.__name__, lambda: dict(f=f.__name__, shape=[a, b, 16]))
        # the same states in other memory layouts (Fortran order, strided rows, a 3-D stack seen through swapaxes)
        for lname, view in (('fortran', np.asfortranarray(st)), ('strided', np.repeat(st, 2, axis=0)[::2]),
                            ('transposed_buffer', np.ascontiguousarray(np.asarray(st).T).T)):
            gv = f(_ro(view))
            t.count('primitive_values', len(states))
            t.check(gv.shape == st.shape and np.array_equal(gv, exp), 'prim_layout_' + f.__name__, lambda: dict(f=f.__name__, layout=lname))
    # mix_column / inv_mix_column: all single-byte columns at the 4 positions + random columns
    cols = []
    for p in range(4):
        for v in range(256):
            c = [0, 0, 0, 0]
            c[p] = v
            cols.append(c)
    cols += rng.integers(0, 256, (500, 4)).tolist()
    cv = _ro(np.array(cols, dtype='uint8'))
    for f, m in ((A.mix_column, [2, 3, 1, 1]), (A.inv_mix_column, [14, 11, 13, 9])):
        got = f(cv)
        exp = np.array([R._mixc_slow(c, m) for c in cols], dtype='uint8')
        t.count('primitive_values', len(cols))
        t.check(got.shape == cv.shape and np.array_equal(got, exp), 'prim_' + f.__name__,
                lambda: dict(first_bad=cols[int(np.argwhere(np.any(got != exp, axis=1))[0][0])]))
    # mix columns over all byte values at every position of the state (linear map: fully determined by these)
    for pos in range(16):
        stw = np.zeros((256, 16), dtype='uint8')
        stw[:, pos] = np.arange(256)
        for f, ref in ((A.mix_columns, R.mix), (A.inv_mix_columns, R.imix)):
            got = f(_ro(stw.copy()))
            exp = np.array([ref(row) for row in stw.tolist()], dtype='uint8')
            t.count('primitive_values', 256)
            t.check(np.array_equal(got, exp), 'prim_' + f.__name__, lambda: dict(pos=pos))
    # the same operations on states held in wider or signed integer types (byte values 0..255): same values as on uint8 states
    wide_states = rng.integers(0, 256, (40, 16))
    wide_states[0], wide_states[1] = 255, 128
    wide_states[2, ::2], wide_states[3, 1::2] = 0x80, 0xC0
    for f in (A.sub_bytes, A.inv_sub_bytes, A.shift_rows, A.inv_shift_rows, A.mix_columns, A.inv_mix_columns):
        ref8 = np.asarray(f(_ro(wide_states.astype('uint8')))).astype('int64')
        for dtn in ('int16', 'uint16', 'int32', 'uint32', 'int64', 'uint64'):
            try:
                g = np.asarray(f(_ro(wide_states.astype(dtn))))
            except (ValueError, TypeError):
                t.count('primitive_dtype_refused')
                continue
            t.count('primitive_values', len(wide_states))
            t.count('primitive_wide_dtype_calls')
            t.check(g.shape == ref8.shape and np.array_equal(g.astype('int64'), ref8), 'prim_dtype_' + f.__name__, lambda: dict(f=f.__name__, dtype=dtn, first_bad_state=wide_states[int(np.argwhere(np.any(g.astype('int64') != ref8, axis=1))[0][0])].tolist() if g.shape == ref8.shape else None))
    wide_cols = np.concatenate([np.array(cols[:1024]), rng.integers(128, 256, (200, 4))])
    for f in (A.mix_column, A.inv_mix_column):
        ref8 = np.asarray(f(_ro(wide_cols.astype('uint8')))).astype('int64')
        for dtn in ('int16', 'uint16', 'int32', 'int64', 'uint64'):
            try:
                g = np.asarray(f(_ro(wide_cols.astype(dtn))))
            except (ValueError, TypeError):
                t.count('primitive_dtype_refused')
                continue
            t.count('primitive_values', len(wide_cols))
            t.count('primitive_wide_dtype_calls')
            t.check(g.shape == ref8.shape and np.array_equal(g.astype('int64'), ref8), 'prim_dtype_' + f.__name__, lambda: dict(f=f.__name__, dtype=dtn, first_bad_column=wide_cols[int(np.argwhere(np.any(g.astype('int64') != ref8, axis=1))[0][0])].tolist() if g.shape == ref8.shape else None))
    # add_round_key in the four documented shapes
    s1, k1 = rng.integers(0, 256, 16).astype('uint8'), rng.integers(0, 256, 16).astype('uint8')
    sn, kn = rng.integers(0, 256, (5, 16)).astype('uint8'), rng.integers(0, 256, (5, 16)).astype('uint8')
    for s, k in ((s1, k1), (s1, kn), (sn, k1), (sn, kn)):
        got = A.add_round_key(_ro(s.copy()), _ro(k.copy()))
        exp = np.array(s.tolist(), dtype='int64') ^ np.array(k.tolist(), dtype='int64')
        t.count('primitive_values', exp.size)
        t.check(np.array_equal(got, exp), 'prim_add_round_key', None)
        got = A.inv_add_round_key(_ro(s.copy()), _ro(k.copy()))
        t.check(np.array_equal(got, exp), 'prim_inv_add_round_key', None)
    # state and key of different integer types (an int8 state holds bytes 0..127, the key any byte): values, never wrapped
    for sdt, kdt in (('int8', 'uint8'), ('int8', 'int16'), ('uint8', 'int16'), ('int16', 'uint8'), ('uint8', 'int64'), ('int32', 'uint8'), ('int8', 'int64')):
        hi_s = 128 if sdt == 'int8' else 256
        s_ = rng.integers(0, hi_s, (6, 16)).astype(sdt)
        k_ = rng.integers(0, 256, (6, 16))
        k_[0], k_[1] = 255, 128
        k_ = k_.astype(kdt)
        exp = np.array(s_.tolist(), dtype='int64') ^ np.array(k_.tolist(), dtype='int64')
        for f in (A.add_round_key, A.inv_add_round_key):
            try:
                got = np.asarray(f(_ro(s_.copy()), _ro(k_.copy())))
            except (TypeError, ValueError):
                t.count('primitive_dtype_refused')
                continue
            t.count('primitive_values', exp.size)
            t.count('primitive_wide_dtype_calls')
            t.check(got.shape == exp.shape and np.array_equal(got.astype('int64') & 0xFF, exp) and np.array_equal(got.astype('int64'), exp), 'prim_dtype_' + f.__name__,
                    lambda: dict(f=f.__name__, state_dtype=sdt, key_dtype=kdt, got=got[0].tolist()[:6], expected=exp[0].tolist()[:6]))
    t.count('stop_points', 0)
    return t.result(sig='primitives', sample=dict(case=case, comparisons=t.checks, values=t.counters.get('primitive_values')))
