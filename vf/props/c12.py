"""C12 - classes are identified by value: order is irrelevant, foreign values ignored.

Metamorphic twins of the real classes (ANOVA, NICV, SNR, MIA, template build, TemplateAttack,
TemplateDPAAttack):
  perm      the same class list in another order  -> scalar results unchanged, per-class outputs reordered
  superset  extra unused class values             -> ANOVA/NICV/SNR/MIA unchanged
  foreign   rows carrying undeclared values (over the whole range of the data dtype: negatives, >= 2^17, max)
            -> identical to the run without those rows (bit-identical in the exact regime)
  auto      partitions=None -> the chosen class set contains every value of the first batch
            (first-batch maxima 0, 1, 8, 9, 10, 63, 64, 65, 255)
plus the by-value exact definitions (vf.oracles).  Every case runs in a crash-isolated worker: a SIGSEGV /
abort is a violation witnessed by the case.
"""
import numpy as np

from .. import core, gen, subjects, tol, oracles
from ..monitors import CONTROL

ID = 'C12'
LEVEL = 'exploration'
WORKERS = {'quick': 10, 'thorough': 14}
BUDGET_S = {'quick': 90, 'thorough': 600}
REQUIRED_COUNTERS = ['perm_twins', 'superset_twins', 'foreign_twins', 'auto_sets_checked', 'hostile_values_fed', 'per_class_rows_compared', 'oracle_entries', 'partial_twins', 'per_word_twins', 'many_class_twins', 'lookalike_analyses', 'template_dpa_gap_cases']
RULE = ('a case = (subject in anova|nicv|snr|mia|tbuild|tstatic|tdpa, relation perm|superset|foreign|auto, class list with gaps and values '
        'up to 2^17-1, data dtype among the six supported integer dtypes, undeclared values drawn over the whole dtype range incl. negatives, '
        '>= 2^17 and the dtype maximum, first-batch maxima on both sides of 0/9/64/255, precision, sub-seed); non-trivial = a twin pair or '
        'the by-value oracle was compared; distinct by all of these')
ASSUMPTIONS = ['class values within [0, 2^17) (the supported range); undeclared hypothesis values in template matching are not judged',
               'scalar results under perm/superset sum over classes in another order: compared within 64*eps*scale; per-class rows and the '
               'foreign-rows twin are compared bit-for-bit in the exact regime']

NAMES = ['anova', 'nicv', 'snr', 'mia', 'tbuild', 'tstatic', 'tdpa']
AUTO_MAX = [0, 1, 8, 9, 10, 63, 64, 65, 254, 255]


def setup():
    if not CONTROL.install():
        raise core.Inconclusive('kernel-choice hook not available')


def cases(tier, seed):
    out = []
    k = 0
    for name in NAMES:
        for rel in ('perm', 'superset', 'foreign', 'auto'):
            if rel == 'superset' and name in ('tbuild', 'tstatic', 'tdpa'):
                continue
            if rel == 'auto' and name in ('tstatic', 'tdpa'):
                continue
            if rel == 'foreign' and name in ('tstatic', 'tdpa'):
                continue
            reps = len(AUTO_MAX) if rel == 'auto' and name in ('snr', 'mia') else (3 if rel == 'foreign' else 1)
            for r in range(reps):
                c = dict(gen='rel', subject=name, rel=rel, sub=core.subseed('C12', seed, k), must=True)
                if rel == 'auto':
                    c['maxv'] = AUTO_MAX[r % len(AUTO_MAX)] if reps > 1 else AUTO_MAX[(k + seed) % len(AUTO_MAX)]
                out.append(c)
                k += 1
    for name in ('anova', 'nicv', 'snr', 'mia'):
        for r in range(2):
            out.append(dict(gen='rel', subject=name, rel='partial', sub=core.subseed('C12p', seed, name, r), must=True))
    # class lists longer than 2^15 / 2^16 entries (legal: any subset of [0, 2^17)), with the values used sitting beyond those positions
    for j, (name, kbig) in enumerate((('snr', 40000), ('anova', 70000), ('nicv', 131072), ('mia', 40000))):
        out.append(dict(gen='many', subject=name, kbig=kbig, sub=core.subseed('C12many', seed, j), must=True))
    # several analyses in one process whose class arrays have the same raw bytes under different integer widths
    for j in range(2 if tier == 'quick' else 30):
        out.append(dict(gen='lookalike', sub=core.subseed('C12look', seed, j), must=True))
    for j in range(3 if tier == 'quick' else 40):
        out.append(dict(gen='tdpa_gap', sub=core.subseed('C12gap', seed, j), must=True))
    rs = np.random.default_rng(core.subseed('C12r', seed))
    n_rand = 250 if tier == 'quick' else 6000
    for j in range(n_rand):
        name = NAMES[int(rs.integers(len(NAMES)))]
        rels = ['perm'] if name in ('tstatic', 'tdpa') else (['perm', 'foreign', 'auto'] if name == 'tbuild' else ['perm', 'superset', 'foreign', 'foreign', 'auto', 'partial'])
        c = dict(gen='rel', subject=name, rel=rels[int(rs.integers(len(rels)))], sub=int(rs.integers(2 ** 62)))
        if c['rel'] == 'auto':
            c['maxv'] = AUTO_MAX[int(rs.integers(len(AUTO_MAX)))]
        out.append(c)
    return out


def _class_list(rng, K, big=True):
    mode = int(rng.integers(4))
    if mode == 0:
        vals = rng.permutation(K).tolist()
    elif mode == 1:
        vals = (int(rng.integers(0, 300)) + rng.permutation(3 * K)[:K]).tolist()
    elif mode == 2 and big:
        vals = rng.choice(np.arange(256, 2 ** 17), K, replace=False).tolist()
    else:
        vals = rng.choice(np.arange(0, 2 ** 17 if big else 256), K, replace=False).tolist()
        if big and rng.random() < 0.5:
            vals[0] = 2 ** 17 - 1
    return [int(v) for v in vals]


def _dtype_for(rng, maxval, need_signed=False):
    ok = [d for d in subjects.DATA_DTYPES_LUT if np.iinfo(d).max >= maxval]
    return ok[int(rng.integers(len(ok)))]


def _foreign_values(rng, ddt, declared, count):
    """Undeclared values over the whole range of the dtype: negatives, >= 2^17, extremes, neighbours of classes."""
    info = np.iinfo(ddt)
    pool = [info.min, info.max, info.max - 1, -1, -2, 2 ** 17, 2 ** 17 + 1, 2 ** 17 - 1, 2 ** 20 + 5, 2 ** 31 - 1, -2 ** 17, -2 ** 17 - 1, 2 ** 16, 255, 256, 0]
    pool += [v + 1 for v in declared[:4]] + [v - 1 for v in declared[:4]] + [v - 2 ** 17 for v in declared[:3]] + [v + 2 ** 17 for v in declared[:3]]
    pool += rng.integers(info.min, info.max, 12, endpoint=True).tolist()
    dec = set(declared)
    pool = [int(v) for v in pool if info.min <= v <= info.max and int(v) not in dec]
    if not pool:
        return None
    return rng.choice(pool, count)


def _run(spec, traces, data, sizes, kseq=None):
    obj = subjects.make(spec)
    if kseq is not None:
        CONTROL.force(obj, list(kseq))
    pos = 0
    for s in sizes:
        obj.update(traces[pos:pos + s], data[pos:pos + s])
        pos += s
    with np.errstate(all='ignore'):
        return obj, subjects.results(obj, spec)


def _many_classes(t, case, rng):
    """A class list with tens of thousands of entries; the few values present in the data sit at positions on both sides of
    2^15 and 2^16. The result must be the one obtained when only the values present are declared (unused classes change nothing),
    and every trace must be counted."""
    name, kbig = case['subject'], int(case['kbig'])
    prec = 'float64'
    declared = rng.permutation(2 ** 17)[:kbig].astype('int64') if kbig < 2 ** 17 else rng.permutation(2 ** 17).astype('int64')
    if rng.random() < 0.5:
        declared = np.sort(declared)
    positions = sorted({0, 1, 32767, 32768, 32769, kbig - 1, int(rng.integers(32768, kbig)), int(rng.integers(32768, kbig))} | ({65535, 65536, 65537, int(rng.integers(65536, kbig))} if kbig > 65537 else set()))
    used = [int(declared[i]) for i in positions]
    n, T, W = 60 * len(used) // 4, int(rng.integers(1, 4)), int(rng.integers(1, 3))
    data = rng.choice(used, (n, W)).astype('uint32' if rng.random() < 0.5 else 'int32')
    shift = {v: 3 * i for i, v in enumerate(used)}
    traces = (rng.integers(0, 6, (n, T)) + np.array([[shift[int(v)]] * T for v in data[:, 0]])).astype('int16')
    spec = dict(name=name, precision=prec, partitions=[int(v) for v in declared])
    as_array = bool(rng.random() < 0.5)
    if as_array:
        spec['partitions_as'] = 'int64' if rng.random() < 0.5 else 'uint32'
    if name == 'mia':
        spec['bin_edges'] = np.linspace(-1, 60, 6).tolist()
    sizes = gen.split_sizes(rng, n, kmax=3)
    info = dict(case=case, classes=kbig, positions_used=positions, n=n, T=T, W=W, sizes=sizes, class_list_as=spec.get('partitions_as', 'list'))
    obj, res = _run(spec, traces, data, sizes)
    small = dict(spec, partitions=used)
    small.pop('partitions_as', None)
    obj2, res2 = _run(small, traces, data, sizes)
    t.count('many_class_twins')
    t.count('superset_twins')
    if name != 'mia':
        cnt = np.asarray(obj.counters)
        t.check(float(cnt.sum()) == float(n * W), 'declared_value_not_counted_in_its_class', lambda: dict(info, counted=float(cnt.sum()), expected=n * W))
        for j, pos in enumerate(positions):
            for w in range(W):
                exp = int((data[:, w] == used[j]).sum())
                t.count('per_class_rows_compared')
                t.check(int(cnt[w, pos]) == exp, 'declared_value_not_counted_in_its_class', lambda: dict(info, class_position=pos, class_value=used[j], word=w, counted=int(cnt[w, pos]), expected=exp))
    for (la, a), (lb, b) in zip(res, res2):
        a_, b_ = np.asarray(a, dtype=float), np.asarray(b, dtype=float)
        ok = a_.shape == b_.shape and bool(np.array_equal(np.isnan(a_), np.isnan(b_))) and bool(np.all(np.abs(np.nan_to_num(a_) - np.nan_to_num(b_)) <= 1e-9 * (1 + np.abs(np.nan_to_num(b_)))))
        t.check(ok, 'unused_class_value_changes_result', lambda: dict(info, label=la, diff=tol.first_diff(a_, b_)))
    if name in ('anova', 'nicv', 'snr'):
        val, scale, undef = oracles.partitioned(name, traces, data, used)
        got = np.asarray(res[0][1], dtype=float)
        dec = ~undef
        t.count('oracle_entries', int(dec.sum()))
        tol.compare_tol(t, np.where(dec, got, 0), np.where(dec, val, 0), tol.C_E * len(used) * tol.eps_of(prec) * scale, 'result_differs_from_by_value_definition', info, undecidable_above=tol.UNDECIDABLE_E)
    if name == 'mia':
        val, _ = oracles.mutual_information(traces, data, used, spec['bin_edges'])
        got = np.asarray(res[0][1], dtype=float)
        t.count('oracle_entries', int(val.size))
        t.check(got.shape == val.shape and not (np.abs(got - val) > 1e-9 * (1 + np.abs(val))).any(), 'mia_differs_from_by_value_definition', lambda: dict(info, got=got.tolist()[:2], expected=val.tolist()[:2]))
    return t.result(sig=f"many|{name}|{kbig}|{n}x{T}x{W}", sample=dict(info, comparisons=t.checks))


def _lookalike(t, case, rng):
    """Analyses created one after the other in one process with class arrays that look alike to anything keyed on their memory:
    the same raw bytes read as 8-bit or 16-bit values, the same values under several widths, the same array object refilled."""
    nb = 2 * int(rng.integers(1, 4))
    raw = rng.permutation(np.arange(1, 200))[:nb].astype('uint8')
    if rng.random() < 0.5:
        raw = np.array([1, 2, 3, 4, 5, 6][:nb], dtype='uint8')
    variants = [('uint8', raw.copy()), ('<u2', raw.view('<u2').copy()), ('<i2', raw.view('<u2').astype('<i2')), ('list_of_bytes', [int(v) for v in raw]), ('list_of_words', [int(v) for v in raw.view('<u2')]),
                ('int32_bytes', raw.astype('int32')), ('int64_words', raw.view('<u2').astype('int64'))]
    order = [variants[i] for i in rng.permutation(len(variants))]
    order = order + [order[0]]
    n, T = 120, int(rng.integers(1, 4))
    pool = sorted(set(int(v) for v in raw) | set(int(v) for v in raw.view('<u2')))
    data = rng.choice(pool, (n, 1)).astype('uint16')
    shift = {v: 2 * i for i, v in enumerate(pool)}
    traces = (rng.integers(0, 5, (n, T)) + np.array([[shift[int(v)]] * T for v in data[:, 0]])).astype('int16')
    names = ['snr', 'anova', 'nicv']
    log = []
    for label, parts in order:
        name = names[int(rng.integers(3))]
        vals = [int(v) for v in (parts.tolist() if isinstance(parts, np.ndarray) else parts)]
        import scared
        klass = dict(anova=scared.ANOVADistinguisher, nicv=scared.NICVDistinguisher, snr=scared.SNRDistinguisher)[name]
        obj = klass(partitions=parts, precision='float64')
        obj.update(traces[:70], data[:70])
        obj.update(traces[70:], data[70:])
        with np.errstate(all='ignore'):
            got = np.asarray(obj.compute(), dtype=float)
        log.append(f'{name}:{label}')
        val, scale, undef = oracles.partitioned(name, traces, data, vals)
        dec = ~undef
        t.count('lookalike_analyses')
        t.count('oracle_entries', int(dec.sum()))
        info = dict(case=case, history=list(log), classes=vals, class_array=label)
        cnt = np.asarray(obj.counters)
        exp_cnt = [int((data[:, 0] == v).sum()) for v in vals]
        t.check(cnt.reshape(-1).astype(int).tolist() == exp_cnt, 'declared_value_not_counted_in_its_class', lambda: dict(info, counted=cnt.reshape(-1).tolist(), expected=exp_cnt))
        tol.compare_tol(t, np.where(dec, got, 0), np.where(dec, val, 0), tol.C_E * tol.eps_of('float64') * scale, 'result_depends_on_earlier_analyses', info, undecidable_above=tol.UNDECIDABLE_E)
    return t.result(sig=f"look|{case['sub']}", sample=dict(case=case, history=log))


def _tdpa_gap(t, case, rng):
    """Template-DPA matching with a class list that has gaps: a hypothesis value lying between two declared classes is not declared.
    Either the batch is refused, or those traces take no part; they are never matched against the template of another value."""
    K, T = int(rng.choice([3, 4, 6])), int(rng.integers(1, 4))
    step = int(rng.choice([2, 3, 5]))
    base0 = int(rng.integers(0, 20))
    declared = [base0 + step * i for i in range(K)]
    if rng.random() < 0.5:
        declared = [declared[i] for i in rng.permutation(K)]
    means = rng.integers(-30, 31, (K, T)) * 4
    per = T + 8
    bvals = np.repeat(np.array(declared), per)
    bs = means[np.repeat(np.arange(K), per)] + np.round(rng.normal(0, 6, (K * per, T)))
    pp = rng.permutation(K * per)
    build = dict(samples=bs[pp].tolist(), values=bvals[pp].tolist(), dtype='float64', vdtype='uint8')
    n, G = int(rng.choice([5, 30])), int(rng.integers(2, 5))
    spec = dict(name='tdpa', precision='float64', partitions=declared, build=build, guesses=G)
    data = rng.choice(declared, (n, G, 1)).astype('uint8')
    traces = (means[rng.integers(0, K, n)] + rng.normal(0, 6, (n, T))).astype('float64')
    inside = [v for v in range(min(declared) + 1, max(declared)) if v not in set(declared)]
    bad_rows = sorted(set(rng.integers(0, n, int(rng.integers(1, 4))).tolist()))
    d_bad = data.copy()
    for r in bad_rows:
        d_bad[r, int(rng.integers(G)), 0] = int(rng.choice(inside))
    info = dict(case=case, declared=declared, undeclared_inside=inside[:6], rows_with_undeclared=bad_rows, n=n, guesses=G)
    a = subjects.make(spec)
    t.count('template_dpa_gap_cases')
    try:
        a.update(traces, d_bad)
        sa = np.asarray(a.compute(), dtype=float).ravel()
    except Exception as e:
        t.count('undeclared_hypothesis_refused')
        t.check(type(e).__name__ in ('DistinguisherError', 'ValueError'), 'undeclared_hypothesis_fails_unexpectedly', lambda: dict(info, error=repr(e)[:200]))
        return t.result(sig=f"tdpagap|{K}|{T}|{n}|{G}", sample=dict(info, outcome='refused'))
    keep = [r for r in range(n) if r not in bad_rows]
    b = subjects.make(spec)
    b.update(traces[keep], data[keep])
    sb = np.asarray(b.compute(), dtype=float).ravel()
    t.count('undeclared_hypothesis_accepted')
    t.check(sa.shape == sb.shape and bool(np.all(np.abs(sa - sb) <= 1e-7 * (1 + np.abs(10 - sb)))), 'undeclared_hypothesis_value_matched_against_another_class',
            lambda: dict(info, scores=sa.tolist(), scores_without_those_traces=sb.tolist()))
    return t.result(sig=f"tdpagap|{K}|{T}|{n}|{G}", sample=dict(info, outcome='accepted'))


def run_case(case):
    t = core.Tally()
    for c in REQUIRED_COUNTERS:
        t.count(c, 0)
    rng = gen.rng_of(case['sub'])
    if case['gen'] == 'many':
        return _many_classes(t, case, rng)
    if case['gen'] == 'lookalike':
        return _lookalike(t, case, rng)
    if case['gen'] == 'tdpa_gap':
        return _tdpa_gap(t, case, rng)
    name, rel = case['subject'], case['rel']
    if name in ('tstatic', 'tdpa'):
        return _template_perm(t, case, rng)
    prec = ['float32', 'float64'][int(rng.integers(2))]
    W = 1 if name == 'tbuild' else int(rng.integers(1, 4))
    if rel == 'partial':
        W = int(rng.integers(2, 4))
    T = int(rng.integers(1, 6))
    K = int(rng.choice([2, 3, 5, 9, 10, 20]))
    n = gen.pick_n(rng, [K + 3, 40, 120], hi=260)
    spec = dict(name=name, precision=prec)
    if name == 'mia':
        spec['bin_edges'] = np.linspace(-40, 40, int(rng.choice([2, 5, 16])) + 1).tolist()
    tdtype = gen.TRACE_DTYPES_INT[int(rng.integers(len(gen.TRACE_DTYPES_INT)))]
    X = min(35, max(1, gen.exact_bound(n + 30, prec, mode='full')))
    info = dict(case=case, precision=prec, n=n, T=T, W=W, tdtype=tdtype)

    def scalar_compare(ra, rb, scale, mech, inf, exact=False):
        for (la, a), (lb, b) in zip(ra, rb):
            if exact or name == 'mia' and False:
                t.check(tol.same(a, b), mech, lambda: dict(inf, label=la, diff=tol.first_diff(a, b)))
            else:
                a_, b_ = np.asarray(a, dtype=float), np.asarray(b, dtype=float)
                t.check(a_.shape == b_.shape and bool(np.array_equal(np.isnan(a_), np.isnan(b_))), mech + '_nan_pattern', lambda: dict(inf, label=la, a=a_.tolist()[:2], b=b_.tolist()[:2]))
                if a_.shape == b_.shape:
                    tol.compare_tol(t, a_, b_, 2 * tol.C_E * tol.eps_of('float64' if name == 'mia' else prec) * scale, mech, inf, metric='ratio_' + mech, undecidable_above=tol.UNDECIDABLE_E)

    if rel == 'auto':
        maxv = case['maxv']
        vals = np.unique(np.append(rng.integers(0, maxv + 1, int(rng.integers(1, 8))), maxv))
        ddt = _dtype_for(rng, maxv)
        n1 = int(rng.integers(1, 30))
        data = rng.choice(vals, (n1 + 20, W)).astype(ddt)
        data[int(rng.integers(n1)), int(rng.integers(W))] = maxv
        data[n1:] = np.minimum(data[n1:], maxv)
        traces = gen.int_traces(rng, n1 + 20, T, tdtype, X)
        spec['partitions'] = None
        if name == 'mia':
            spec['bin_edges'] = np.linspace(-40, 40, 5).tolist()
        obj, res = _run(spec, traces, data, [n1, 20])
        first_vals = sorted(int(v) for v in np.unique(data[:n1]))
        chosen = [int(v) for v in np.asarray(obj.partitions).tolist()]
        t.count('auto_sets_checked')
        missing = [v for v in first_vals if v not in chosen]
        t.check(not missing, 'auto_class_set_misses_first_batch_value', lambda: dict(info, first_batch_max=maxv, first_batch_values=first_vals[-5:], missing=missing,
                                                                                 chosen_size=len(chosen)))
        # and the result equals the definition over the values present (every trace counted)
        if name in ('anova', 'nicv', 'snr') and not missing:
            val, scale, undef = oracles.partitioned(name, traces, data, chosen)
            got = np.asarray(res[0][1], dtype=float)
            dec = ~undef
            t.count('oracle_entries', int(dec.sum()))
            tol.compare_tol(t, np.where(dec, got, 0), np.where(dec, val, 0), tol.C_E * tol.eps_of(prec) * scale, 'auto_classes_result_differs_from_definition', info,
                            undecidable_above=tol.UNDECIDABLE_E)
        return t.result(sig=f"auto|{name}|{maxv}|{ddt}|{n1}", sample=dict(info, first_batch_max=maxv, chosen_size=len(chosen)))

    declared = _class_list(rng, K, big=True)
    ddt = _dtype_for(rng, max(declared))
    data = rng.choice(declared, (n, W)).astype(ddt)
    if rng.random() < 0.5 and K > 2:
        data[data == declared[-1]] = declared[0]        # one declared class stays empty
    traces = gen.int_traces(rng, n, T, tdtype, X)
    # give classes different means so that a mis-attributed trace changes the result
    shift = {v: int(rng.integers(0, max(1, X // 2) + 1)) for v in declared}
    traces = (traces.astype('int64') // 2 + np.array([[shift[int(v)]] * T for v in data[:, 0]]))
    traces = np.clip(traces, *gen.dtype_range(tdtype)).astype(tdtype)
    sizes = [n] if rng.random() < 0.4 else gen.split_sizes(rng, n, kmax=3)
    kseq = [int(v) for v in rng.integers(0, 2, len(sizes) + 4)]
    spec['partitions'] = declared
    if rng.random() < 0.4:
        ok_dt = [d for d in ('uint8', 'uint16', 'int16', 'uint32', 'int64') if min(declared) >= np.iinfo(d).min and max(declared) <= np.iinfo(d).max]
        spec['partitions_as'] = ok_dt[int(rng.integers(len(ok_dt)))]
        t.count('class_list_as_ndarray')
    info.update(declared=declared[:12], ddt=ddt, sizes=sizes, class_list_as=spec.get('partitions_as', 'list'))
    base_obj, base = _run(spec, traces, data, sizes, kseq)
    scale = None
    if name in ('anova', 'nicv', 'snr'):
        val, scale, undef = oracles.partitioned(name, traces, data, declared)
        got = np.asarray(base[0][1], dtype=float)
        dec = ~undef
        t.count('oracle_entries', int(dec.sum()))
        t.check(bool(np.all(np.isnan(got[undef]))), 'undefined_entry_not_nan', lambda: dict(info))
        tol.compare_tol(t, np.where(dec, got, 0), np.where(dec, val, 0), tol.C_E * tol.eps_of(prec) * scale, 'result_differs_from_by_value_definition', info,
                        undecidable_above=tol.UNDECIDABLE_E)
    elif name == 'mia':
        val, _ = oracles.mutual_information(traces, data, declared, spec['bin_edges'])
        got = np.asarray(base[0][1], dtype=float)
        t.count('oracle_entries', int(val.size))
        scale = np.ones_like(val) * 16
        bad = np.abs(got - val) > 1e-9 * (1 + np.abs(val))
        t.check(got.shape == val.shape and not bad.any(), 'mia_differs_from_by_value_definition', lambda: dict(info, got=got.tolist()[:2], expected=val.tolist()[:2]))
    else:
        means, pooled, small = oracles.template_build(traces, data[:, 0], declared)
        got = np.asarray(base[0][1], dtype=float)
        ok_rows = [i for i in range(len(declared)) if not np.isnan(means[i]).any()]
        t.count('oracle_entries', len(ok_rows) * T)
        for i in ok_rows:
            t.check(bool(np.allclose(got[i], means[i], rtol=8 * tol.eps_of(prec), atol=0)), 'template_row_is_not_class_mean',
                    lambda: dict(info, class_value=declared[i], got=got[i].tolist(), expected=means[i].tolist()))
        scale = None

    if rel == 'perm':
        order = rng.permutation(K)
        perm = [declared[i] for i in order]
        _, res = _run(dict(spec, partitions=perm), traces, data, sizes, kseq)
        t.count('perm_twins')
        inf = dict(info, permuted=perm[:12])
        if name == 'tbuild':
            a, b = np.asarray(base[0][1]), np.asarray(res[0][1])
            for j, i in enumerate(order):
                t.count('per_class_rows_compared')
                t.check(tol.same(a[i], b[j]), 'template_row_not_reordered_with_classes', lambda: dict(inf, class_value=declared[i], a=a[i].tolist(), b=b[j].tolist()))
            pa, pb = np.asarray(base[1][1], dtype=float), np.asarray(res[1][1], dtype=float)
            sc = tol.result_scale(dict(spec), traces, data)['pooled_covariance']
            tol.compare_tol(t, pa, pb, 2 * tol.C_E * len(declared) * tol.eps_of(prec) * sc, 'pooled_covariance_depends_on_class_order', inf, natural=float(X * X) + 1.0)
        else:
            scalar_compare(base, res, scale, 'class_order_changes_result', inf)
    elif rel == 'superset':
        extra = [int(v) for v in rng.choice([v for v in range(0, 2 ** 17, 7) if v not in set(declared)], int(rng.integers(1, 5)), replace=False)]
        sup = list(declared) + extra
        sup = [sup[i] for i in rng.permutation(len(sup))] if rng.random() < 0.5 else sup
        _, res = _run(dict(spec, partitions=sup), traces, data, sizes, kseq)
        t.count('superset_twins')
        scalar_compare(base, res, scale, 'unused_class_value_changes_result', dict(info, superset_extra=extra))
    elif rel == 'foreign':
        m = int(rng.integers(1, 25))
        fv = _foreign_values(rng, ddt, declared, (m, W))
        if fv is None:
            return t.result(nontrivial=False, sig='noforeign', sample=info)
        t.count('hostile_values_fed', int(fv.size))
        ftr = gen.int_traces(rng, m, T, tdtype, X)
        # interleave the foreign rows with the declared ones, batch by batch
        pos_ins = np.sort(rng.integers(0, n + 1, m))
        big_tr = np.insert(traces, pos_ins, ftr, axis=0)
        big_da = np.insert(data, pos_ins, fv.astype(ddt), axis=0)
        sizes2 = [n + m] if len(sizes) == 1 else gen.split_sizes(rng, n + m, kmax=3)
        info.update(foreign_values=[int(v) for v in fv.ravel()[:10]], sizes_with_foreign=sizes2)
        obj2, res = _run(spec, big_tr, big_da, sizes2, kseq)
        t.count('foreign_twins')
        for (la, a), (lb, b) in zip(base, res):
            t.check(tol.same(a, b), 'undeclared_value_changes_result', lambda: dict(info, label=la, diff=tol.first_diff(a, b)))
        if name in ('anova', 'nicv', 'snr'):
            t.check(tol.same(base_obj.counters, obj2.counters), 'undeclared_value_counted_in_a_class',
                    lambda: dict(info, counters_without=np.asarray(base_obj.counters).tolist()[:2], counters_with=np.asarray(obj2.counters).tolist()[:2]))
    elif rel == 'partial':
        # undeclared values scattered cell by cell: a trace may be undeclared for one word and declared for another;
        # each word's result must be the one of a run that only ever saw that word
        fv = _foreign_values(rng, ddt, declared, (n, W))
        if fv is None or W < 2:
            return t.result(nontrivial=False, sig='nopartial', sample=info)
        mask = rng.random((n, W)) < 0.25
        mask[:, int(rng.integers(W))] |= rng.random(n) < 0.2
        mask[mask.all(axis=1), 0] = False                      # no row undeclared on every word: the point is the mixed rows
        d2 = np.where(mask, fv.astype(ddt), data).astype(ddt)
        t.count('hostile_values_fed', int(mask.sum()))
        info.update(cells_undeclared=int(mask.sum()), rows_mixed=int((mask.any(1) & ~mask.all(1)).sum()))
        _, res = _run(spec, traces, d2, sizes, kseq)
        t.count('partial_twins')
        got = np.asarray(res[0][1])
        for w in range(W):
            _, rw = _run(spec, traces, np.ascontiguousarray(d2[:, [w]]), sizes, kseq)
            t.count('per_word_twins')
            one = np.asarray(rw[0][1])[0]
            if name == 'mia':
                # same counts, but the entropy sums run over arrays of another shape: compared up to rounding of the float64 sums
                same_w = got[w].shape == one.shape and bool(np.all(np.abs(np.asarray(got[w], float) - np.asarray(one, float)) <= 1e-12 * (1 + np.abs(np.asarray(one, float)))))
            else:
                same_w = tol.same(got[w], one)
            t.check(same_w, 'undeclared_value_on_another_word_changes_result', lambda: dict(info, word=w, diff=tol.first_diff(got[w], one)))
        if name == 'mia':
            val, _ = oracles.mutual_information(traces, d2, declared, spec['bin_edges'])
            bad = np.abs(np.asarray(got, float) - val) > 1e-9 * (1 + np.abs(val))
            t.check(not bad.any(), 'mia_differs_from_by_value_definition', lambda: dict(info, got=np.asarray(got, float).tolist()[:2], expected=val.tolist()[:2]))
        else:
            val, sc2, undef = oracles.partitioned(name, traces, d2, declared)
            dec = ~undef
            tol.compare_tol(t, np.where(dec, np.asarray(got, float), 0), np.where(dec, val, 0), tol.C_E * tol.eps_of(prec) * sc2, 'result_differs_from_by_value_definition', info,
                            undecidable_above=tol.UNDECIDABLE_E)
    sig = f"{rel}|{name}|{prec}|{ddt}|{tdtype}|{K}|{n}x{T}x{W}|{len(sizes)}|{max(declared)}"
    return t.result(sig=sig, sample=dict(info, comparisons=t.checks))


def _template_perm(t, case, rng):
    """TemplateAttack: static scores follow the class order; TemplateDPAAttack: scores do not depend on it."""
    name = case['subject']
    prec = 'float64'
    K = int(rng.choice([2, 3, 5, 8]))
    T = int(rng.integers(1, 5))
    declared = _class_list(rng, K, big=False) if name == 'tdpa' else _class_list(rng, K, big=False)
    means = rng.integers(-30, 31, (K, T)) * 4
    per = T + 8
    bvals = np.repeat(np.array(declared), per)
    bidx = np.repeat(np.arange(K), per)
    bs = means[bidx] + np.round(rng.normal(0, 6, (K * per, T)))
    p = rng.permutation(K * per)
    build = dict(samples=bs[p].tolist(), values=bvals[p].tolist(), dtype='float64', vdtype='uint8' if max(declared) < 256 else 'uint16')
    n = int(rng.choice([1, 7, 40]))
    tidx = rng.integers(0, K, n)
    traces = (means[tidx] + rng.normal(0, 6, (n, T))).astype('float64')
    order = rng.permutation(K)
    perm = [declared[i] for i in order]
    spec = dict(name=name, precision=prec, partitions=declared, build=build)
    info = dict(case=case, declared=declared, permuted=perm, n=n, T=T)
    if name == 'tdpa':
        G = int(rng.integers(2, 6))
        spec['guesses'] = G
        data = rng.choice(declared, (n, G, 1)).astype(build['vdtype'])
    else:
        data = np.zeros((n, 1), dtype='uint8')
    a = subjects.make(spec)
    b = subjects.make(dict(spec, partitions=perm))
    ta, tb = np.asarray(a.templates), np.asarray(b.templates)
    for j, i in enumerate(order):
        t.count('per_class_rows_compared')
        t.check(tol.same(ta[i], tb[j]), 'template_row_not_reordered_with_classes', lambda: dict(info, class_value=declared[i]))
    # by-value definition of the templates
    m_or, pooled, small = oracles.template_build(np.array(build['samples']), np.array(build['values']), declared)
    t.count('oracle_entries', ta.size)
    t.check(bool(np.allclose(ta, m_or, rtol=1e-12, atol=1e-9)), 'template_row_is_not_class_mean', lambda: dict(info, got=ta.tolist()[:2], expected=m_or.tolist()[:2]))
    a.update(traces, data)
    b.update(traces, data)
    sa, sb = np.asarray(a.compute(), dtype=float).ravel(), np.asarray(b.compute(), dtype=float).ravel()
    t.count('perm_twins')
    rt = 1e-7
    if name == 'tstatic':
        ok = sa.shape == sb.shape == (K,) and all(abs(sa[i] - sb[j]) <= rt * (1 + abs(10 - sa[i])) for j, i in enumerate(order))
        t.check(ok, 'static_scores_not_reordered_with_classes', lambda: dict(info, scores=sa.tolist(), scores_permuted=sb.tolist()))
        # oracle: class of the nearest template is ranked consistently by value
    else:
        ok = sa.shape == sb.shape and bool(np.all(np.abs(sa - sb) <= rt * (1 + np.abs(10 - sa))))
        t.check(ok, 'template_dpa_scores_depend_on_class_order', lambda: dict(info, scores=sa.tolist(), scores_permuted=sb.tolist()))
        # by-value oracle for the scores
        Minv = np.linalg.pinv(pooled)
        exp = []
        d2 = data.reshape(n, -1)
        row_of = {v: i for i, v in enumerate(declared)}
        for g in range(d2.shape[1]):
            diff = traces - m_or[[row_of[int(v)] for v in d2[:, g]]]
            exp.append(10 - float(np.sum((diff @ Minv) * diff)) / (T * n))
        exp = np.array(exp)
        t.count('oracle_entries', len(exp))
        t.check(bool(np.all(np.abs(sa - exp) <= 1e-6 * (1 + np.abs(10 - exp)))), 'template_dpa_score_not_by_value', lambda: dict(info, got=sa.tolist(), expected=exp.tolist()))
    return t.result(sig=f"tperm|{name}|{K}|{T}|{n}|{declared}", sample=dict(info, comparisons=t.checks))
