"""C07 - ready-made selection functions predict the real cipher state under the true key.

Oracle: the independent reference ciphers (vf.refs).  For EVERY guess value g a real master key is constructed
whose targeted round key has the value g in every word (first round: the master key itself / DES: inverse
PC-2/PC-1; last round: the key schedule run backwards, written here for all AES key sizes and checked against
the reference expansion), and column g of the selection function's output is compared with the reference
cipher's state at the targeted operation for that key and the very same plaintext / ciphertext batch.  The
expected-key function is compared with the reference round key.  Words / guesses selections are compared with
the slice of the full output.
Target map (fixed here, probed once on the tree; enc = reference encryption trace, dec = decryption trace):
  AES  FirstAddRoundKey enc(0,3) | FirstSubBytes enc(1,0) | LastAddRoundKey dec(0,0) |
       LastSubBytes ShiftRows(dec(0,3)) | DeltaRLastRounds ShiftRows(dec(0,3) xor ciphertext);
       decrypt namespace: the same functions seen from the inverse cipher (First* <-> Last*).
  DES  First{AddRoundKey,Sboxes,FeistelR,DeltaR} = round 0 steps 2,3,7,8 on the plaintext;
       Last{...} = round 0 steps 2,3,7,8 of the DEcryption of the ciphertext (= encryption rounds 15,15,13,14).
"""
import numpy as np

from .. import core, gen
from ..refs import aes_ref as A
from ..refs import des_ref as D

ID = 'C07'
LEVEL = 'exploration'
WORKERS = {'quick': 10, 'thorough': 14}
BUDGET_S = {'quick': 40, 'thorough': 300}
REQUIRED_COUNTERS = ['guess_columns_vs_reference_state', 'expected_key_vs_reference', 'expected_key_column_vs_real_state', 'slicing_twins', 'retained_results_rechecked', 'aes_cases', 'des_cases',
                     'constructed_keys', 'big_batch_rows_vs_small_batches', 'concurrent_calls_vs_alone']
AES_E = ['FirstAddRoundKey', 'FirstSubBytes', 'LastAddRoundKey', 'LastSubBytes', 'DeltaRLastRounds']
AES_D = ['FirstAddRoundKey', 'FirstSubBytes', 'LastAddRoundKey', 'LastSubBytes', 'DeltaRFirstRounds']
DES_N = ['FirstAddRoundKey', 'FirstSboxes', 'LastAddRoundKey', 'LastSboxes', 'FeistelRFirstRounds', 'FeistelRLastRounds', 'DeltaRFirstRounds', 'DeltaRLastRounds']
RULE = ('a case = (cipher AES-128/192/256 | DES, namespace encrypt | decrypt, selection-function class (all 26 constructors), 1..40 traces, data dtype, '
        'words selection int | list | slice | ndarray | all, guesses full | subset | permutation, sub-seed); in every case ALL guess columns are compared with '
        'the reference state under a key constructed for that guess; plus single calls on 1025..5000 traces judged row by row against short batches, and '
        '4 threads calling the functions of one cipher at once (switch interval 10 us) judged against the same calls made alone; non-trivial = at least one column compared; distinct by all of these')
ASSUMPTIONS = ['vf.refs.aes_ref / des_ref are correct (self-tested against the standards\' vectors and pycryptodome; failure = inconclusive)',
               'DES master keys are built with parity bits 0 (the key schedule ignores them)']


def setup():
    try:
        A.self_test()
        D.self_test()
    except Exception as e:
        raise core.Inconclusive(f'reference self-test failed: {e!r}')


def cases(tier, seed):
    out = []
    k = 0
    for ks in (16, 24, 32):
        for ns, names in (('encrypt', AES_E), ('decrypt', AES_D)):
            for name in names:
                out.append(dict(gen='aes', keysize=ks, ns=ns, name=name, sub=core.subseed('C07', seed, k), must=True))
                k += 1
    for ns in ('encrypt', 'decrypt'):
        for name in DES_N:
            out.append(dict(gen='des', ns=ns, name=name, sub=core.subseed('C07', seed, k), must=True))
            k += 1
    # batches holding exactly as many traces as there are guesses (the two leading axes of the output then have the same length)
    out.append(dict(gen='aes', keysize=16, ns='encrypt', name='FirstSubBytes', n=256, sub=core.subseed('C07sq', seed, 0), must=True))
    out.append(dict(gen='aes', keysize=32, ns='decrypt', name='FirstAddRoundKey', n=256, sub=core.subseed('C07sq', seed, 1), must=True))
    out.append(dict(gen='des', ns='encrypt', name='FirstSboxes', n=64, sub=core.subseed('C07sq', seed, 2), must=True))
    out.append(dict(gen='des', ns='decrypt', name='DeltaRFirstRounds', n=64, sub=core.subseed('C07sq', seed, 3), must=True))
    for j in range(4 if tier == 'quick' else 80):
        out.append(dict(gen='family', cipher=['aes', 'des'][j % 2], sub=core.subseed('C07fam', seed, j), must=j < 2))
    # one call on a batch longer than any internal block size; several callers at once
    bigs = [('aes', 'encrypt', 'FirstSubBytes', 1500), ('aes', 'encrypt', 'LastSubBytes', 2049), ('aes', 'decrypt', 'DeltaRFirstRounds', 1025), ('aes', 'encrypt', 'FirstAddRoundKey', 1300),
            ('des', 'encrypt', 'FirstSboxes', 1500), ('des', 'decrypt', 'FeistelRLastRounds', 2049), ('des', 'encrypt', 'DeltaRLastRounds', 1025)]
    for j, (cipher, ns, name, n) in enumerate(bigs):
        out.append(dict(gen='big', cipher=cipher, ns=ns, name=name, n=n, sub=core.subseed('C07big', seed, j), must=True))
    for j in range(2 if tier == 'quick' else 30):
        out.append(dict(gen='threads', cipher=['des', 'aes'][j % 2], sub=core.subseed('C07thr', seed, j), must=j < 2))
    rs = np.random.default_rng(core.subseed('C07r', seed))
    if tier == 'thorough':
        for j in range(60):
            cipher = ['aes', 'des'][int(rs.integers(2))]
            ns = ['encrypt', 'decrypt'][int(rs.integers(2))]
            nm = (AES_E if ns == 'encrypt' else AES_D)[int(rs.integers(5))] if cipher == 'aes' else DES_N[int(rs.integers(8))]
            out.append(dict(gen='big', cipher=cipher, ns=ns, name=nm, n=int(rs.choice([257, 1023, 1024, 1025, 2047, 3000, 4097, 5000])), sub=int(rs.integers(2 ** 62))))
    n_rand = 150 if tier == 'quick' else 5000
    for j in range(n_rand):
        if rs.random() < 0.55:
            ns = ['encrypt', 'decrypt'][int(rs.integers(2))]
            out.append(dict(gen='aes', keysize=int(rs.choice([16, 24, 32])), ns=ns, name=(AES_E if ns == 'encrypt' else AES_D)[int(rs.integers(5))], sub=int(rs.integers(2 ** 62))))
        else:
            out.append(dict(gen='des', ns=['encrypt', 'decrypt'][int(rs.integers(2))], name=DES_N[int(rs.integers(8))], sub=int(rs.integers(2 ** 62))))
    return out


# ---------------------------------------------------------------------------------------------------------
def aes_master_from_last_words(last, nk):
    """Run the FIPS-197 key expansion backwards: `last` = the final nk words (4 bytes each) of the schedule -> master key."""
    nr = nk + 6
    total = 4 * (nr + 1)
    w = {total - nk + i: list(last[i]) for i in range(nk)}
    rc = [1]
    for _ in range(20):
        rc.append(A.xt(rc[-1]))
    for i in range(total - 1, nk - 1, -1):
        # w[i] = w[i-nk] xor t(w[i-1])  =>  w[i-nk] = w[i] xor t(w[i-1])
        t = list(w[i - 1])
        if i % nk == 0:
            t = t[1:] + t[:1]
            t = [A.SB[x] for x in t]
            t[0] ^= rc[i // nk - 1]
        elif nk > 6 and i % nk == 4:
            t = [A.SB[x] for x in t]
        w[i - nk] = [a ^ b for a, b in zip(w[i], t)]
    return [b for i in range(nk) for b in w[i]]


def aes_key_with_round_key(rng, keysize, which, g):
    """A master key whose first (which=0) / last (which=-1) round key has every byte equal to g."""
    nk = keysize // 4
    if which == 0:
        return [g] * 16 + [int(v) for v in rng.integers(0, 256, keysize - 16)]
    last = [[int(v) for v in rng.integers(0, 256, 4)] for _ in range(nk - 4)] + [[g] * 4 for _ in range(4)]
    key = aes_master_from_last_words(last, nk)
    assert A.expand(key)[-1] == [g] * 16, 'inverse key schedule of the harness is wrong'
    return key


def des_key_with_round_key(rng, which, g):
    """A DES master key whose first (which=0) / last (which=15) round key has every six-bit word equal to g."""
    k48 = [(g >> (5 - i)) & 1 for _ in range(8) for i in range(6)]
    cd = [int(v) for v in rng.integers(0, 2, 56)]
    for o, i in enumerate(D.PC2):
        cd[i - 1] = k48[o]
    c, d = cd[:28], cd[28:]
    if which == 0:
        s = D.SHIFTS[0]
        c, d = c[-s:] + c[:-s], d[-s:] + d[:-s]          # undo the first left rotation
    # which == 15: the cumulated rotation is 28 = identity
    cd0 = c + d
    kb = [0] * 64
    for o, i in enumerate(D.PC1):
        kb[i - 1] = cd0[o]
    key = D.pack(kb, 8)
    assert D.round_keys(key)[which] == [g] * 8, 'inverse DES key schedule of the harness is wrong'
    return key


def _words_sel(rng, nw):
    k = int(rng.integers(6))
    if k == 0:
        return None, list(range(nw))
    if k == 1:
        w = int(rng.integers(nw))
        return w, w
    if k == 2:
        w = rng.integers(0, nw, int(rng.integers(1, nw + 1))).tolist()
        return w, w
    if k == 3:
        a = int(rng.integers(0, nw))
        b = int(rng.integers(a + 1, nw + 1))
        s = int(rng.integers(1, 4))
        return slice(a, b, s), slice(a, b, s)
    if k == 4:
        w = rng.permutation(nw)[:int(rng.integers(1, nw + 1))]
        return np.array(w), w
    return ..., list(range(nw))


def run_aes(case):
    import scared
    t = core.Tally()
    rng = gen.rng_of(case['sub'])
    ks, ns, name = case['keysize'], case['ns'], case['name']
    mod = getattr(scared.aes.selection_functions, ns)
    ctor = getattr(mod, name)
    n = int(rng.choice([1, 2, 3, 7, 40])) if not case.get('n') else int(case['n'])
    first_key = (ns == 'encrypt' and name.startswith('First')) or (ns == 'decrypt' and name.startswith('Last'))
    # which metadata the function reads: functions keyed by the first round key read the plaintext, the others the ciphertext
    tag = 'plaintext' if first_key else 'ciphertext'
    ddt = ['uint8', 'uint8', 'int16', 'int32', 'int64', 'uint16'][int(rng.integers(6))]
    data = rng.integers(0, 256, (n, 16))
    if rng.random() < 0.3:
        data[0] = int(rng.choice([0, 255]))
    data_in = data.astype(ddt)
    data_in.setflags(write=False)
    sf = ctor()
    t.count('aes_cases')
    info = dict(cipher=f'AES-{ks * 8}', namespace=ns, function=name, traces=n, data_dtype=ddt, reads=tag)
    decoy = {}
    if rng.random() < 0.3:
        decoy = dict(data=rng.integers(0, 256, data_in.shape).astype('uint8'))       # an unrelated metadata field called 'data'
    full = np.asarray(sf(**{tag: data_in}, **decoy))
    if not t.check(full.shape == (n, 256, 16) and full.dtype.kind in 'iu', 'full_output_shape', lambda: dict(info, got=full.shape, dtype=str(full.dtype))):
        return t.result()
    # which reference state is targeted
    kind = name.replace('First', '').replace('Last', '').replace('Rounds', '')
    if ns == 'decrypt':
        # the decrypt namespace is the same function family seen from the inverse cipher
        kind_eff = kind
        first_eff = first_key
    else:
        kind_eff, first_eff = kind, first_key

    def target_state(block, key):
        if first_eff:
            st, _ = A.enc_states(block, key)
            return st[(0, 3)] if kind_eff == 'AddRoundKey' else st[(1, 0)]
        st, _ = A.dec_states(block, key)
        if kind_eff == 'AddRoundKey':
            return st[(0, 0)]
        if kind_eff == 'SubBytes':
            return A.shr(st[(0, 3)])
        return A.shr([a ^ b for a, b in zip(st[(0, 3)], block)])          # DeltaR

    guesses = list(range(256)) if n <= 7 else sorted(set(rng.integers(0, 256, 40).tolist()) | {0, 255})
    bad = None
    for g in guesses:
        key = aes_key_with_round_key(rng, ks, 0 if first_eff else -1, g)
        t.count('constructed_keys')
        for r in range(n):
            exp = target_state([int(v) for v in data[r]], key)
            t.count('guess_columns_vs_reference_state')
            if bad is None and full[r, g].tolist() != exp:
                bad = dict(info, guess=g, trace=r, got=full[r, g].tolist(), expected=exp, data=data[r].tolist())
    t.check(bad is None, 'guess_column_differs_from_real_state_under_that_key', bad)
    # expected key: the targeted round key of the real master key, and that column is the real state
    key = [int(v) for v in rng.integers(0, 256, ks)]
    rk = A.expand(key)
    ek = np.asarray(sf.compute_expected_key(key=np.array(key, dtype='uint8')))
    t.count('expected_key_vs_reference')
    exp_rk = rk[0] if first_eff else rk[-1]
    if t.check(ek.shape == (16,) and ek.tolist() == exp_rk, 'expected_key_is_not_the_targeted_round_key', lambda: dict(info, got=ek.tolist(), expected=exp_rk)):
        for r in range(min(n, 5)):
            exp = target_state([int(v) for v in data[r]], key)
            got = [int(full[r, exp_rk[w], w]) for w in range(16)]
            t.count('expected_key_column_vs_real_state')
            t.check(got == exp, 'expected_key_column_is_not_the_real_state', lambda: dict(info, trace=r, got=got, expected=exp))
    _retained(t, rng, ctor, sf, tag, data_in, full, info)
    _slicing(t, rng, ctor, tag, data_in, full, 256, 16, info)
    return t.result(sig=f"aes|{ks}|{ns}|{name}|{n}|{ddt}|{info.get('words')}|{info.get('guesses')}", sample=dict(case=case, derived=info))


def _retained(t, rng, ctor, sf, tag, data_in, full, info):
    """The array returned by one call must not change when a selection function is called again on another batch."""
    keep = np.array(full, copy=True)
    other = rng.integers(0, 256, data_in.shape).astype(data_in.dtype)
    second = np.asarray(sf(**{tag: other}))
    third = np.asarray(ctor()(**{tag: rng.integers(0, 256, data_in.shape).astype(data_in.dtype)}))
    t.count('retained_results_rechecked')
    t.check(bool(np.array_equal(full, keep)), 'earlier_result_overwritten_by_later_call', lambda: dict(info, n_changed=int(np.sum(full != keep))))
    t.check(not np.shares_memory(full, second) and not np.shares_memory(full, third), 'results_of_two_calls_share_memory', info)


def _slicing(t, rng, ctor, tag, data_in, full, ng, nw, info):
    for rep in range(4):
        W, Wi = _words_sel(rng, nw)
        gk = int(rng.integers(3)) if rep else 3
        if gk == 3:
            # every guess value exactly once, but not in natural order
            G = (np.arange(ng)[::-1] if rng.random() < 0.5 else rng.permutation(ng)).astype('uint8')
        elif gk == 0:
            G = np.arange(ng, dtype='uint8')
        elif gk == 1:
            G = rng.permutation(ng).astype('uint8')[:int(rng.integers(1, ng + 1))]
        else:
            G = rng.integers(0, ng, int(rng.integers(1, 12)) if rng.random() < 0.6 else data_in.shape[0]).astype('uint8')     # sometimes as many guesses as traces
        kw = dict(guesses=G if rng.random() < 0.8 or gk else range(ng))
        if W is not None:
            kw['words'] = W
        sf2 = ctor(**kw)
        out = np.asarray(sf2(**{tag: data_in}))
        ref = full[:, G.astype(int)]
        ref = ref if W is None else ref[..., Wi] if not isinstance(W, type(...)) else ref
        t.count('slicing_twins')
        info['words'], info['guesses'] = repr(W)[:40], f'{gk}:{len(G)}'
        t.check(out.shape == ref.shape and bool(np.array_equal(out, ref)), 'selection_is_not_the_slice_of_the_full_output',
                lambda: dict(info, words=repr(W)[:60], guesses=G.tolist()[:20], got_shape=out.shape, expected_shape=ref.shape))
        if not isinstance(W, int):
            t.check(out.ndim == 3 and out.shape[0] == data_in.shape[0] and out.shape[1] == len(G), 'output_layout_not_traces_guesses_words', lambda: dict(info, got_shape=out.shape))


def run_des(case):
    import scared
    t = core.Tally()
    rng = gen.rng_of(case['sub'])
    ns, name = case['ns'], case['name']
    ctor = getattr(getattr(scared.des.selection_functions, ns), name)
    n = int(rng.choice([1, 2, 5, 20])) if not case.get('n') else int(case['n'])
    first_key = (ns == 'encrypt' and 'First' in name) or (ns == 'decrypt' and 'Last' in name)
    tag = 'plaintext' if first_key else 'ciphertext'
    ddt = ['uint8', 'uint8', 'int16', 'int32', 'uint16'][int(rng.integers(5))]
    data = rng.integers(0, 256, (n, 8))
    data_in = data.astype(ddt)
    data_in.setflags(write=False)
    sf = ctor()
    t.count('des_cases')
    info = dict(cipher='DES', namespace=ns, function=name, traces=n, data_dtype=ddt, reads=tag)
    decoy = {}
    if rng.random() < 0.3:
        decoy = dict(data=rng.integers(0, 256, data_in.shape).astype('uint8'))
    full = np.asarray(sf(**{tag: data_in}, **decoy))
    if not t.check(full.shape == (n, 64, 8) and full.dtype.kind in 'iu', 'full_output_shape', lambda: dict(info, got=full.shape, dtype=str(full.dtype))):
        return t.result()
    step = dict(AddRoundKey=2, Sboxes=3, FeistelR=7, DeltaR=8)[name.replace('First', '').replace('Last', '').replace('Rounds', '')]

    def target_state(block, key):
        rks = D.round_keys(key)
        if first_key:
            rec, pre, ct = D.des_trace(block, rks)            # the data is the plaintext: first encryption round
        else:
            rec, pre, ct = D.des_trace(block, rks[::-1])      # the data is the ciphertext: first decryption round (= last encryption rounds)
        return D.stop_value(rec, pre, ct, 0, step)

    bad = None
    for g in (range(64) if n <= 20 else sorted(set(rng.integers(0, 64, 12).tolist()) | {0, 63})):
        key = des_key_with_round_key(rng, 0 if first_key else 15, g)
        t.count('constructed_keys')
        for r in range(n):
            exp = target_state([int(v) for v in data[r]], key)
            t.count('guess_columns_vs_reference_state')
            if bad is None and full[r, g].tolist() != exp:
                bad = dict(info, guess=g, trace=r, got=full[r, g].tolist(), expected=exp, data=data[r].tolist())
    t.check(bad is None, 'guess_column_differs_from_real_state_under_that_key', bad)
    key = [int(v) for v in rng.integers(0, 256, 8)]
    rks = D.round_keys(key)
    ek = np.asarray(sf.compute_expected_key(key=np.array(key, dtype='uint8')))
    exp_rk = rks[0] if first_key else rks[15]
    t.count('expected_key_vs_reference')
    if t.check(ek.shape == (8,) and ek.tolist() == exp_rk, 'expected_key_is_not_the_targeted_round_key', lambda: dict(info, got=ek.tolist(), expected=exp_rk)):
        for r in range(min(n, 5)):
            exp = target_state([int(v) for v in data[r]], key)
            got = [int(full[r, exp_rk[w], w]) for w in range(8)]
            t.count('expected_key_column_vs_real_state')
            t.check(got == exp, 'expected_key_column_is_not_the_real_state', lambda: dict(info, trace=r, got=got, expected=exp))
            if not first_key and step in (2, 3):
                # cross-check of the map itself: the same value seen from the encryption side (rounds 15 / 15)
                pt = D.crypt([int(v) for v in data[r]], key, 'decrypt')
                rec, pre, ct = D.des_trace(pt, rks)
                t.check(D.stop_value(rec, pre, ct, 15, step) == exp, 'harness_map_inconsistent', info)
    _retained(t, rng, ctor, sf, tag, data_in, full, info)
    _slicing(t, rng, ctor, tag, data_in, full, 64, 8, info)
    return t.result(sig=f"des|{ns}|{name}|{n}|{ddt}|{info.get('words')}|{info.get('guesses')}", sample=dict(case=case, derived=info))


def run_family(case):
    """All functions of one cipher family applied to the SAME batch one after the other in one process (a memo keyed on the batch
    content, a shared buffer or a round template changed by one function shows in the next one)."""
    import scared
    t = core.Tally()
    rng = gen.rng_of(case['sub'])
    cipher = case['cipher']
    n = int(rng.choice([1, 2, 4]))
    width = 16 if cipher == 'aes' else 8
    data = rng.integers(0, 256, (n, width)).astype('uint8')
    key = [int(v) for v in rng.integers(0, 256, 16 if cipher == 'aes' else 8)]
    names = [(ns, nm) for ns in ('encrypt', 'decrypt') for nm in (AES_E if cipher == 'aes' and ns == 'encrypt' else AES_D if cipher == 'aes' else DES_N)]
    order = [names[i] for i in rng.permutation(len(names))] * 2
    for (ns, nm) in order:
        ctor = getattr(getattr(getattr(scared, cipher).selection_functions, ns), nm)
        first_key = (ns == 'encrypt' and 'First' in nm) or (ns == 'decrypt' and 'Last' in nm)
        tag = 'plaintext' if first_key else 'ciphertext'
        sf = ctor()
        out = np.asarray(sf(**{tag: data}))
        t.count('family_calls')
        if cipher == 'aes':
            kind = nm.replace('First', '').replace('Last', '').replace('Rounds', '')
            rk = A.expand(key)
            ek = rk[0] if first_key else rk[-1]
            for r in range(n):
                blk = [int(v) for v in data[r]]
                if first_key:
                    st, _ = A.enc_states(blk, key)
                    exp = st[(0, 3)] if kind == 'AddRoundKey' else st[(1, 0)]
                else:
                    st, _ = A.dec_states(blk, key)
                    exp = st[(0, 0)] if kind == 'AddRoundKey' else A.shr(st[(0, 3)]) if kind == 'SubBytes' else A.shr([a ^ b for a, b in zip(st[(0, 3)], blk)])
                got = [int(out[r, ek[w], w]) for w in range(16)]
                t.count('expected_key_column_vs_real_state')
                t.check(got == exp, 'result_depends_on_earlier_calls', lambda: dict(cipher=cipher, function=f'{ns}.{nm}', trace=r, got=got, expected=exp, order=[f'{a}.{b}' for a, b in order][:8]))
        else:
            step = dict(AddRoundKey=2, Sboxes=3, FeistelR=7, DeltaR=8)[nm.replace('First', '').replace('Last', '').replace('Rounds', '')]
            rks = D.round_keys(key)
            ek = rks[0] if first_key else rks[15]
            for r in range(n):
                rec, pre, ct = D.des_trace([int(v) for v in data[r]], rks if first_key else rks[::-1])
                exp = D.stop_value(rec, pre, ct, 0, step)
                got = [int(out[r, ek[w], w]) for w in range(8)]
                t.count('expected_key_column_vs_real_state')
                t.check(got == exp, 'result_depends_on_earlier_calls', lambda: dict(cipher=cipher, function=f'{ns}.{nm}', trace=r, got=got, expected=exp, order=[f'{a}.{b}' for a, b in order][:8]))
    return t.result(sig=f"family|{cipher}|{case['sub']}", sample=dict(case=case, calls=len(order)))


def _ref_expected_column(cipher, ns, nm, block, key):
    first_key = (ns == 'encrypt' and 'First' in nm) or (ns == 'decrypt' and 'Last' in nm)
    kind = nm.replace('First', '').replace('Last', '').replace('Rounds', '')
    if cipher == 'aes':
        rk = A.expand(key)
        if first_key:
            st, _ = A.enc_states(block, key)
            return rk[0], (st[(0, 3)] if kind == 'AddRoundKey' else st[(1, 0)])
        st, _ = A.dec_states(block, key)
        return rk[-1], (st[(0, 0)] if kind == 'AddRoundKey' else A.shr(st[(0, 3)]) if kind == 'SubBytes' else A.shr([a ^ b for a, b in zip(st[(0, 3)], block)]))
    step = dict(AddRoundKey=2, Sboxes=3, FeistelR=7, DeltaR=8)[kind]
    rks = D.round_keys(key)
    rec, pre, ct = D.des_trace(block, rks if first_key else rks[::-1])
    return (rks[0] if first_key else rks[15]), D.stop_value(rec, pre, ct, 0, step)


def run_big(case):
    """One call on a batch longer than any plausible internal block: every row must be what the same function gives for that row in a
    small batch (rows are independent), and sampled rows must be the real cipher state at the expected key."""
    import scared
    t = core.Tally()
    rng = gen.rng_of(case['sub'])
    cipher, ns, nm, n = case['cipher'], case['ns'], case['name'], int(case['n'])
    ctor = getattr(getattr(getattr(scared, cipher).selection_functions, ns), nm)
    first_key = (ns == 'encrypt' and 'First' in nm) or (ns == 'decrypt' and 'Last' in nm)
    tag = 'plaintext' if first_key else 'ciphertext'
    width, ng = (16, 256) if cipher == 'aes' else (8, 64)
    data = rng.integers(0, 256, (n, width)).astype('uint8')
    data.setflags(write=False)
    sf = ctor()
    out = np.asarray(sf(**{tag: data}))
    info = dict(cipher=cipher, namespace=ns, function=nm, traces=n)
    t.count('big_batch_calls')
    if not t.check(out.shape == (n, ng, width), 'full_output_shape', lambda: dict(info, got=out.shape)):
        return t.result()
    pos = 0
    bad = None
    while pos < n:
        c = int(rng.choice([1, 7, 40, 64]))
        small = np.asarray(ctor()(**{tag: data[pos:pos + c]}))
        t.count('big_batch_rows_vs_small_batches', len(small))
        if bad is None and not np.array_equal(small, out[pos:pos + c]):
            r = pos + int(np.argwhere(np.any(small.reshape(len(small), -1) != out[pos:pos + c].reshape(len(small), -1), axis=1))[0][0])
            bad = dict(info, first_bad_row=r, chunk=[pos, pos + c])
        pos += c
    t.check(bad is None, 'row_of_a_long_batch_differs_from_the_same_row_in_a_short_batch', bad)
    key = [int(v) for v in rng.integers(0, 256, 16 if cipher == 'aes' else 8)]
    for r in sorted({0, 1, n - 1, n - 2, min(n - 1, 1023), min(n - 1, 1024), n // 2, int(rng.integers(n)), int(rng.integers(n))}):
        ek, exp = _ref_expected_column(cipher, ns, nm, [int(v) for v in data[r]], key)
        got = [int(out[r, ek[w], w]) for w in range(width)]
        t.count('expected_key_column_vs_real_state')
        t.check(got == exp, 'expected_key_column_is_not_the_real_state', lambda: dict(info, trace=r, got=got, expected=exp))
    return t.result(sig=f"big|{cipher}|{ns}|{nm}|{n}", sample=dict(case=case, derived=info))


def run_threads(case):
    """Several threads call the ready-made functions of one cipher at once, each on its own batch: every result must be the one the
    same call gives alone (computed beforehand in this process, and tied to the reference cipher at the expected key)."""
    import sys
    import threading
    import scared
    t = core.Tally()
    rng = gen.rng_of(case['sub'])
    cipher = case['cipher']
    width = 16 if cipher == 'aes' else 8
    names = [(ns, nm) for ns in ('encrypt', 'decrypt') for nm in (AES_E if cipher == 'aes' and ns == 'encrypt' else AES_D if cipher == 'aes' else DES_N)]
    nthreads, ncalls = 4, (24 if cipher == 'aes' else 60)
    plans = []
    for th in range(nthreads):
        plan = []
        for c in range(ncalls):
            ns, nm = names[int(rng.integers(len(names)))]
            first_key = (ns == 'encrypt' and 'First' in nm) or (ns == 'decrypt' and 'Last' in nm)
            data = rng.integers(0, 256, (int(rng.choice([1, 3, 10])), width)).astype('uint8')
            plan.append((ns, nm, 'plaintext' if first_key else 'ciphertext', data))
        plans.append(plan)
    key = [int(v) for v in rng.integers(0, 256, 16 if cipher == 'aes' else 8)]
    alone = []
    for plan in plans:
        res = []
        for ns, nm, tag, data in plan:
            out = np.asarray(getattr(getattr(getattr(scared, cipher).selection_functions, ns), nm)()(**{tag: data}))
            res.append(out)
        alone.append(res)
    # tie the sequential results to the reference (first row of a few calls per thread)
    for th in range(nthreads):
        for c in (0, ncalls // 2, ncalls - 1):
            ns, nm, tag, data = plans[th][c]
            ek, exp = _ref_expected_column(cipher, ns, nm, [int(v) for v in data[0]], key)
            got = [int(alone[th][c][0, ek[w], w]) for w in range(width)]
            t.count('expected_key_column_vs_real_state')
            t.check(got == exp, 'expected_key_column_is_not_the_real_state', lambda: dict(cipher=cipher, function=f'{ns}.{nm}', got=got, expected=exp))
    results = [[None] * ncalls for _ in range(nthreads)]
    errors = []
    barrier = threading.Barrier(nthreads)

    def work(th):
        barrier.wait()
        for c, (ns, nm, tag, data) in enumerate(plans[th]):
            try:
                sf = getattr(getattr(getattr(scared, cipher).selection_functions, ns), nm)()
                results[th][c] = np.asarray(sf(**{tag: data}))
            except Exception as e:      # recorded, judged below
                errors.append((th, c, f'{ns}.{nm}', repr(e)[:200]))

    old = sys.getswitchinterval()
    sys.setswitchinterval(1e-5)
    try:
        ths = [threading.Thread(target=work, args=(i,)) for i in range(nthreads)]
        for x in ths:
            x.start()
        for x in ths:
            x.join()
    finally:
        sys.setswitchinterval(old)
    t.check(not errors, 'concurrent_call_failed', lambda: dict(cipher=cipher, first=errors[:3], count=len(errors)))
    for th in range(nthreads):
        for c in range(ncalls):
            if results[th][c] is None:
                continue
            t.count('concurrent_calls_vs_alone')
            ns, nm, tag, data = plans[th][c]
            t.check(results[th][c].shape == alone[th][c].shape and bool(np.array_equal(results[th][c], alone[th][c])), 'result_depends_on_a_concurrent_call',
                    lambda: dict(cipher=cipher, thread=th, call=c, function=f'{ns}.{nm}'))
    return t.result(sig=f"threads|{cipher}|{case['sub']}", sample=dict(case=case, threads=nthreads, calls_per_thread=ncalls))


def run_case(case):
    if case['gen'] in ('big', 'threads'):
        r = run_big(case) if case['gen'] == 'big' else run_threads(case)
        for c in REQUIRED_COUNTERS:
            r.setdefault('counters', {}).setdefault(c, 0)
        return r
    if case['gen'] == 'family':
        r = run_family(case)
        for c in REQUIRED_COUNTERS:
            r.setdefault('counters', {}).setdefault(c, 0)
        return r
    r = run_aes(case) if case['gen'] == 'aes' else run_des(case)
    for c in REQUIRED_COUNTERS:
        r.setdefault('counters', {}).setdefault(c, 0)
    return r
