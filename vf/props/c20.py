"""C20 - Synchronizer output is exactly the accepted traces, in order, with own metadata (fault enumeration).

The user function handed to the Synchronizer is the monitor: it reads the trace's own `idx` metadata, logs the
call order (must be 0..N-1, once each) and, following the dictated pattern over {accept, ResynchroError, other
Exception, return None}, returns data tagged with the trace id, so that every output row identifies its origin.
Oracle: a sequential reference model (list of accepted (id, data, metadata)).  After run(): output rows ==
model rows in order (samples bit-equal, every metadata field equal), processed / synchronized counters ==
(N, accepted), and a second run() is refused with SynchronizerError without calling the function again.  When
nothing is accepted any exception from the writer/reader is tolerated but the counters must still be (N, 0).
"""
import itertools
import os
import pathlib
import shutil
import tempfile
import warnings

import numpy as np

from .. import core, gen

ID = 'C20'
LEVEL = 'fault_enumeration'
WORKERS = {'quick': 8, 'thorough': 14}
BUDGET_S = {'quick': 40, 'thorough': 300}
REQUIRED_COUNTERS = ['patterns', 'patterns_exhaustive', 'function_calls_logged', 'output_rows_compared', 'nothing_accepted_patterns', 'second_run_refused',
                     'long_failure_runs', 'check_before_run', 'output_file_reused']
RULE = ('a case = a block of accept / ResynchroError / other-Exception / return-None patterns over the N input traces: ALL 4^N patterns for N <= 4 (quick) / '
        '5 (thorough) (flag exhaustive), plus random patterns to N = 60 with runs of >= 8 and >= 16 consecutive failures; output given as str | Path; '
        'returned data shorter than, equal to or longer than the input trace; 2-3 metadata fields of different dtypes; non-trivial = the function '
        'call log and the output set were compared with the sequential model; distinct by (pattern, output length, output kind)')
ASSUMPTIONS = ['the ETS output is read back through the reader returned by run() (estraces)', 'returned data has the same length for every accepted trace of one run '
               '(the ETS container is rectangular)', 'exceptions raised by the user function derive from Exception (KeyboardInterrupt is documented to propagate)']
SYMS = 'arvn'


def exhaustive_note(tier):
    return [f'all 4^N accept/ResynchroError/Exception/None patterns for every N in 1..{4 if tier == "quick" else 5}']


def cases(tier, seed):
    out = []
    Nmax = 4 if tier == 'quick' else 5
    for N in range(1, Nmax + 1):
        pats = [''.join(p) for p in itertools.product(SYMS, repeat=N)]
        chunk = 64
        for i in range(0, len(pats), chunk):
            out.append(dict(gen='exh', patterns=pats[i:i + chunk], outlen=[7, 3, 12][(N + i // chunk) % 3], as_path=bool((N + i // chunk) % 2), must=True))
    # runs of 8 / 9 / 16 / 17 consecutive failures (the warning thresholds) starting at trace 0, 1, 2 and ending at / before the last trace
    runs = []
    for start in (0, 1, 2):
        for ln in (8, 9, 16, 17):
            for sym in 'rvn':
                runs.append('a' * start + sym * ln + 'a')
                runs.append('a' * start + sym * ln)
    for i in range(0, len(runs), 12):
        out.append(dict(gen='exh', patterns=runs[i:i + 12], outlen=[7, 3, 12][(i // 12) % 3], as_path=bool((i // 12) % 2), must=True))
    rs = np.random.default_rng(core.subseed('C20', seed))
    n_rand = 250 if tier == 'quick' else 4000
    for j in range(n_rand):
        out.append(dict(gen='rand', sub=int(rs.integers(2 ** 62)), must=j < 20))
    return out


def _one(t, tmpdir, k, pattern, outlen, as_path, exhaustive, meta_kind=0, dtype='float32', pre_check=0, raw=False, reuse_output=None, ret='fresh'):
    import scared
    import estraces
    N, L = len(pattern), 7
    samples = (np.arange(N * L).reshape(N, L) + 0.5).astype(dtype)
    idx = np.arange(N, dtype='int64').reshape(N, 1)
    pt = ((np.arange(N * 4).reshape(N, 4) * 7 + 3) % 251).astype('uint8')
    meta = dict(idx=idx, plaintext=pt)
    if meta_kind:
        meta['gain'] = (np.arange(N, dtype='float64') * 0.25 - 3).reshape(N, 1)
    if meta_kind == 2 or (meta_kind and N > 10):
        meta['label'] = np.array([f't{(i * 7) % (N + 3)}' if i % 3 else f'trace-number-{i}' for i in range(N)])       # text of varying length
    ths = estraces.read_ths_from_ram(samples=samples, **meta)
    calls = []

    if raw:
        outlen = L          # the function hands back the trace's own samples object (array-like, not an ndarray)

    wide = ret == 'wide' and np.dtype(dtype).kind == 'i' and not raw
    swapped = ret == 'swapped' and not raw
    buf = {}

    class UserSyncError(scared.SynchronizerError):
        pass

    class UserResyncError(scared.ResynchroError):
        pass

    # what the user function raises to reject a trace: the documented ResynchroError (or a subclass), and any other exception -
    # including the package's own SynchronizerError, which a user may well pick to signal "pattern not found"
    REJECT = [scared.ResynchroError, UserResyncError]
    OTHER = [ValueError, scared.SynchronizerError, IndexError, UserSyncError, ZeroDivisionError, RuntimeError, KeyError]

    def expected_data(i):
        if raw:
            return samples[i]
        if wide:
            return samples[i, :min(outlen, L)].astype('int64') * 1000 - 70000 - i          # wider than, and outside the range of, the input dtype
        if outlen <= L:
            return (samples[i, :outlen] * 2 + i).astype(dtype)
        return np.concatenate([samples[i], np.full(outlen - L, float(i), dtype=dtype)])

    phase = dict(run=False, check_calls=0)

    def f(trace_object):
        i = int(trace_object.idx[0])
        if not phase['run']:
            phase['check_calls'] += 1          # called by Synchronizer.check(), before run()
        else:
            calls.append(i)
        a = pattern[i]
        if a == 'r':
            raise REJECT[(k + i) % len(REJECT)]('rejected by the monitor')
        if a == 'v':
            t.count('exception_kind:' + OTHER[(k + i) % len(OTHER)].__name__)
            raise OTHER[(k + i) % len(OTHER)]('injected failure')
        if a == 'n':
            return None
        if raw:
            return trace_object.samples
        if wide:
            return trace_object.samples[:min(outlen, L)].astype('int64') * 1000 - 70000 - i
        if ret == 'same_buffer' and outlen <= L:
            # the user function refills and returns one preallocated array (the Synchronizer must have stored trace k before asking for trace k+1)
            b = buf.setdefault('a', np.zeros(outlen, dtype=dtype))
            b[...] = trace_object.samples[:outlen] * 2 + i
            return b
        if swapped:
            # the data comes back in the other byte order (a window cut out of a big-endian acquisition): same values
            r = np.asarray(expected_data(i))
            t.count('returned_in_other_byte_order')
            return r.astype(r.dtype.newbyteorder())
        if outlen <= L:
            return trace_object.samples[:outlen] * 2 + i
        return np.concatenate([trace_object.samples[:], np.full(outlen - L, float(i), dtype=dtype)])

    fn = os.path.join(tmpdir, f'out_{k}.ets')
    out = pathlib.Path(fn) if as_path else fn
    if reuse_output is not None:
        # the output path already holds an earlier synchronized set (3 traces): with overwrite it must be replaced, without it the
        # Synchronizer may refuse - but whatever it returns must be exactly the traces accepted by THIS run
        old = estraces.read_ths_from_ram(samples=np.full((3, L), -7.0, dtype=dtype), idx=np.full((3, 1), 999, dtype='int64'), plaintext=np.zeros((3, 4), dtype='uint8'))
        s0 = scared.Synchronizer(old, fn, lambda trace_object: trace_object.samples[:])
        o0 = s0.run()
        if hasattr(o0, 'close'):
            o0.close()
        t.count('output_file_reused')
        try:
            s = scared.Synchronizer(ths, out, f, overwrite=bool(reuse_output))
        except Exception as e:
            t.check(not reuse_output, 'overwrite_refused', dict(error=repr(e)[:200]))
            t.count('existing_output_refused')
            return
    else:
        s = scared.Synchronizer(ths, out, f)
    model = [i for i, a in enumerate(pattern) if a == 'a']
    info = dict(pattern=pattern if N <= 40 else pattern[:40] + '...', N=N, outlen=outlen, output='Path' if as_path else 'str', accepted=len(model))
    t.count('patterns')
    if exhaustive:
        t.count('patterns_exhaustive')
    o, err = None, None
    if pre_check:
        # the documented way of trying the function out before the real run: it must leave no trace in the run
        import contextlib
        import io
        with contextlib.redirect_stdout(io.StringIO()), warnings.catch_warnings():
            warnings.simplefilter('ignore')
            for _ in range(pre_check):
                s.check(nb_traces=min(N, 3))
        t.count('check_before_run')
        # (nothing is asserted here: the property speaks of the state after run(); a trace left by check() shows in the counters / output below)
    phase['run'] = True
    with warnings.catch_warnings():
        warnings.simplefilter('ignore')
        try:
            o = s.run()
        except Exception as e:
            err = repr(e)[:200]
    if reuse_output is False:
        # an output that already exists and may not be overwritten: refusing (at construction or at the first write) is legitimate and what
        # the reader of the old file shows when nothing was accepted is not the property's business; only a run that RETURNS with accepted
        # traces is judged (its output must be exactly those traces, not the old ones plus the new ones)
        if err is not None or not model:
            t.count('existing_output_refused')
            if o is not None and hasattr(o, 'close'):
                try:
                    o.close()
                except Exception:
                    pass
            return
    t.count('function_calls_logged', len(calls))
    t.check(calls == list(range(N)), 'function_call_order', lambda: dict(info, calls=calls[:50]))
    t.check(s.processed_counter == N and s.synchronized_counter == len(model), 'counters_wrong',
            lambda: dict(info, processed_counter=s.processed_counter, synchronized_counter=s.synchronized_counter))
    if not model:
        t.count('nothing_accepted_patterns')
        if o is not None and reuse_output is None:           # (with a pre-existing output file the reader shows that older file: not judged)
            try:
                t.check(len(o) == 0, 'output_rows_without_accepted_trace', lambda: dict(info, rows=len(o)))
            except Exception:
                pass
    else:
        if not t.check(err is None and o is not None, 'run_failed_with_accepted_traces', dict(info, error=err)):
            return
        if t.check(len(o) == len(model), 'output_row_count', lambda: dict(info, rows=len(o))):
            exp = np.array([expected_data(i) for i in model])
            got = np.asarray(o.samples[:])
            t.count('output_rows_compared', len(model))
            t.check(got.shape == exp.shape and bool(np.array_equal(got, exp)), 'output_samples_differ', lambda: dict(info, got=got[:3].tolist(), expected=exp[:3].tolist(), origin_by_tag=np.asarray(o.idx[:]).ravel().tolist()[:20]))
            t.check(bool(np.array_equal(np.asarray(o.idx[:]).ravel(), np.array(model))), 'output_order_or_origin', lambda: dict(info, got=np.asarray(o.idx[:]).ravel().tolist()[:40], expected=model[:40]))
            for name, arr in meta.items():
                gotm = np.asarray(getattr(o, name)[:])
                t.check(gotm.shape == arr[model].shape and bool(np.array_equal(gotm, arr[model])), 'output_metadata_differ', lambda: dict(info, field=name, got=gotm[:4].tolist(), expected=arr[model][:4].tolist()))
    # single use
    ncalls = len(calls)
    try:
        with warnings.catch_warnings():
            warnings.simplefilter('ignore')
            s.run()
        t.check(False, 'second_run_accepted', info)
    except scared.SynchronizerError:
        t.count('second_run_refused')
        t.check(len(calls) == ncalls and s.processed_counter == N and s.synchronized_counter == len(model), 'second_run_had_effects',
                lambda: dict(info, calls_after=len(calls), processed_counter=s.processed_counter, synchronized_counter=s.synchronized_counter))
    except Exception as e:
        t.check(False, 'second_run_other_exception', dict(info, error=repr(e)[:200]))
    if o is not None and hasattr(o, 'close'):
        try:
            o.close()
        except Exception:
            pass
    try:
        os.remove(fn)
    except OSError:
        pass


def run_case(case):
    t = core.Tally()
    for c in REQUIRED_COUNTERS:
        t.count(c, 0)
    tmpdir = tempfile.mkdtemp(prefix='vf-c20-')
    try:
        if case['gen'] == 'exh':
            for k, p in enumerate(case['patterns']):
                _one(t, tmpdir, k, p, case['outlen'], case['as_path'], True, meta_kind=k % 3, pre_check=(1 if k % 4 == 3 else 0), raw=(k % 5 == 2), reuse_output=(None if k % 7 else bool(k % 2)), ret=['fresh', 'same_buffer', 'swapped', 'wide', 'fresh', 'swapped', 'fresh', 'same_buffer'][k % 8],
                     dtype=['float32', 'int16'][(k // 4) % 2])
            sig = f"exh|{len(case['patterns'][0])}|{case['patterns'][0]}|{case['outlen']}|{case['as_path']}"
        else:
            rng = gen.rng_of(case['sub'])
            for k in range(6):
                N = int(rng.integers(5, 61))
                probs = [[.4, .3, .15, .15], [.1, .5, .2, .2], [.8, .1, .05, .05], [0, .5, .3, .2]][int(rng.integers(4))]
                p = list(rng.choice(list(SYMS), N, p=probs))
                if rng.random() < 0.5 and N >= 10:
                    ln = int(rng.choice([8, 9, 16, 17, 33]))
                    st = int(rng.integers(0, max(1, N - ln)))
                    sym = SYMS[1 + int(rng.integers(3))]
                    p[st:st + ln] = [sym] * min(ln, N - st)
                    t.count('long_failure_runs')
                edge = int(rng.integers(5))
                if edge == 0:
                    p[0] = 'r'
                elif edge == 1:
                    p[-1] = 'n'
                elif edge == 2:
                    p[0], p[-1] = 'a', 'a'
                _one(t, tmpdir, k, ''.join(p), int(rng.choice([3, 7, 12, 1])), bool(rng.integers(2)), False, meta_kind=int(rng.integers(3)),
                     dtype=['float32', 'float64', 'int16'][int(rng.integers(3))], pre_check=int(rng.choice([0, 0, 1, 2])), raw=bool(rng.random() < 0.2),
                     reuse_output=[None, None, None, True, False][int(rng.integers(5))], ret=['fresh', 'same_buffer', 'wide', 'swapped'][int(rng.integers(4))])
            sig = f"rand|{case['sub']}"
    finally:
        shutil.rmtree(tmpdir, ignore_errors=True)
    if t.checks == 0:
        # every scenario of the case fell under 'existing output that may not be overwritten: refused' - counted, nothing to judge
        r = core.held(0, nontrivial=False, counters=dict(t.counters))
        r['metrics'] = {}
        return r
    return t.result(sig=sig, sample=dict(case={k: (v if k != 'patterns' else v[:3] + ['...']) for k, v in case.items()}, patterns=t.counters.get('patterns')))
