"""C03 - CPA (both formulations) is the Pearson correlation, DPA the difference of class means.

Oracle: exact integer/rational statistics (vf.oracles.cpa / dpa) for integer-valued inputs, centred long double
for float inputs; tolerance C*eps*scale from the first-order error model (DESIGN section 4).  NaN clauses are
decided only in the exact regime ("for integer-valued inputs").  Layout: entry [i, j, t] of the result is
compared with word (i, j) and sample t.
"""
import math

import numpy as np

from .. import core, gen, subjects, tol, oracles

ID = 'C03'
LEVEL = 'exploration'
WORKERS = {'quick': 6, 'thorough': 14}
BUDGET_S = {'quick': 45, 'thorough': 360}
REQUIRED_COUNTERS = ['entries_compared', 'nan_entries_expected', 'layout_entries', 'cases_with_constant_columns', 'large_trace_count_cases', 'data_layout:F', 'data_layout:strided', 'wide_word_cases']
RULE = ('a case = (cpa | cpa_alt | dpa, precision, regime E (integer-valued, every sum and every product formed in compute exactly '
        'representable) or R (float traces, offsets 0/50/1000), n in 2..3000, samples 1..12, word shape () .. (3,2), trace dtype, data '
        'dtype, degenerate structure: constant samples / constant words / all-0 or all-1 bits / none, one update or several batches); '
        'non-trivial = at least one defined entry compared with the exact statistic; distinct by all of these')
ASSUMPTIONS = ['exact regime: NaN expected exactly where a variance is 0 or a bit class is empty', 'tolerance 64*eps*scale (E) or 16*n*eps*scale (R); '
               'entries whose tolerance exceeds 1e-3 (E) / 1e-2 (R) of the natural scale are counted undecidable, not judged']


def cases(tier, seed):
    out = []
    k = 0
    for name in ('cpa', 'cpa_alt', 'dpa'):
        for prec in ('float32', 'float64'):
            for regime in ('E', 'R'):
                for degen in ('none', 'const_sample', 'const_word', 'both'):
                    if regime == 'R' and degen != 'none':
                        continue
                    out.append(dict(gen='stat', subject=name, precision=prec, regime=regime, degen=degen, sub=core.subseed('C03', seed, k), must=True))
                    k += 1
    # large trace counts (counters and products of counts beyond 2^32), exact accumulators
    bigs = [('dpa', 'float64', 140000), ('dpa', 'float32', 140000), ('cpa', 'float64', 140000), ('cpa_alt', 'float64', 70000)]
    if tier != 'quick':
        bigs += [('dpa', 'float64', 300000), ('cpa', 'float32', 200000), ('cpa_alt', 'float32', 140000), ('dpa', 'float32', 70000), ('cpa', 'float64', 300000)]
    for name, prec, n in bigs:
        out.append(dict(gen='stat', subject=name, precision=prec, regime='E', degen='none', big=n, sub=core.subseed('C03big', seed, name, prec, n), must=True))
    # many intermediate words (guesses x words of a real attack: hundreds), counts around the powers of two
    wides = [(300,), (3, 100), (257,), (2, 256), (513,), (255,), (1, 1024), (64, 5)]
    for j, ws in enumerate(wides if tier != 'quick' else wides[:5]):
        for name in ('cpa', 'cpa_alt', 'dpa'):
            out.append(dict(gen='stat', subject=name, precision=['float32', 'float64'][j % 2], regime='E', degen='none', wide=list(ws), sub=core.subseed('C03w', seed, name, j), must=True))
    # intermediate values that are fractions in [0, 1] (a model scaled by a power of two): every sum stays exact
    for name in ('cpa', 'cpa_alt'):
        for prec in ('float32', 'float64'):
            out.append(dict(gen='stat', subject=name, precision=prec, regime='E', degen=['none', 'const_word'][k % 2], frac=True, sub=core.subseed('C03f', seed, k), must=True))
            k += 1
    # integer inputs whose sums are NOT exact in the precision (16-bit samples, thousands of traces) and one constant word: that row is NaN
    for name in ('cpa', 'cpa_alt', 'dpa'):
        for prec in ('float32', 'float64'):
            out.append(dict(gen='stat', subject=name, precision=prec, regime='R', degen='none', intconst=True, sub=core.subseed('C03ic', seed, k), must=True))
            k += 1
    rs = np.random.default_rng(core.subseed('C03r', seed))
    n_rand = 4000 if tier == 'quick' else 60000
    for j in range(n_rand):
        regime = 'E' if rs.random() < 0.7 else 'R'
        out.append(dict(gen='stat', subject=['cpa', 'cpa_alt', 'dpa'][int(rs.integers(3))], precision=['float32', 'float64'][int(rs.integers(2))],
                        regime=regime, degen=['none', 'none', 'const_sample', 'const_word', 'both'][int(rs.integers(5))] if regime == 'E' else 'none',
                        sub=int(rs.integers(2 ** 62))))
        if j % 25 == 0:
            out.append(dict(gen='stat', subject=['cpa', 'cpa_alt', 'dpa'][int(rs.integers(3))], precision=['float32', 'float64'][int(rs.integers(2))], regime='R', degen='none', intconst=True,
                            sub=int(rs.integers(2 ** 62))))
    return out


def run_case(case):
    t = core.Tally()
    rng = gen.rng_of(case['sub'])
    name, prec, regime, degen = case['subject'], case['precision'], case['regime'], case['degen']
    n = gen.pick_n(rng, [2, 3, 4, 7, 16, 50, 130, 400, 1000, 3000])
    T = int(rng.integers(1, 13))
    ws = gen.WORD_SHAPES[int(rng.integers(len(gen.WORD_SHAPES)))]
    if case.get('wide'):
        ws = tuple(case['wide'])
        n, T = int(rng.choice([5, 20, 60])), int(rng.integers(1, 4))
        t.count('wide_word_cases')
    big = case.get('big')
    if big:
        n, T = int(big), 2
        ws = [(2,), (2, 2), ()][int(rng.integers(3))]
        t.count('large_trace_count_cases')
    W = gen.word_count(ws)
    L = gen.LIMIT[prec] - 1
    if name == 'dpa':
        ymax, ddt = 1, 'uint8'
    else:
        ymax = int(rng.choice([1, 4, 8, 255]))
        if regime == 'E':
            ymax = max(1, min(ymax, math.isqrt(L // (n * n)))) if not big else max(1, min(3, math.isqrt(L // n)))
        ddt = ['uint8', 'uint16', 'int16', 'uint32', 'int64', 'float32', 'float64'][int(rng.integers(7))]
    intconst = bool(case.get('intconst'))
    if intconst:
        n, T = int(rng.choice([3000, 4096, 5000])), int(rng.integers(1, 4))
        ws = [(3,), (2, 2), (5,)][int(rng.integers(3))]
        W = gen.word_count(ws)
        ymax = 1 if name == 'dpa' else int(rng.choice([4, 8]))
        ddt = 'uint8'
        t.count('inexact_integer_sums_with_constant_word')
    if case.get('frac'):
        ddt = ['float32', 'float64'][int(rng.integers(2))]
    data = rng.integers(0, ymax + 1, gen.data_shape(n, ws))
    if name != 'dpa' and rng.random() < 0.3 and np.dtype(ddt).kind in 'if':
        data = data - int(rng.integers(0, ymax + 1))              # signed intermediate values
    if name != 'dpa' and np.dtype(ddt).kind == 'f' and (case.get('frac') or rng.random() < 0.3):
        # a model normalised to [0, 1] (e.g. Hamming weight / 8): division by a power of two keeps every product and sum exact
        data = data / float(2 ** int(np.ceil(np.log2(max(1, int(np.abs(data).max()))))))
        t.count('fractional_intermediate_values')
    tdtype = gen.TRACE_DTYPES[int(rng.integers(len(gen.TRACE_DTYPES)))]
    if regime == 'E':
        X = gen.exact_bound(n, prec, ymax=max(1, int(np.abs(data).max())), mode='full')
        if big:
            # exact accumulators only (mode 'acc'): compute() then performs O(1) roundings on exact sums
            X = max(1, min(5, gen.exact_bound(n, prec, ymax=max(1, int(np.abs(data).max())), mode='acc')))
        elif X == 0:
            X = 1
            n = min(n, math.isqrt(L))
            data = data[:n]
        traces = gen.int_traces(rng, n, T, tdtype, X)
    elif intconst:
        tdtype = 'uint16'
        traces = rng.integers(0, 65536, (n, T)).astype('uint16')
    else:
        if tdtype not in gen.TRACE_DTYPES_FLOAT:
            tdtype = gen.TRACE_DTYPES_FLOAT[int(rng.integers(2))]
        traces = gen.float_traces(rng, n, T, tdtype, offset=float(rng.choice([0.0, 50.0, 1000.0])), sigma=float(rng.choice([1.0, 7.0])))
    d2 = data.reshape(n, -1)
    if degen in ('const_sample', 'both'):
        cols = rng.random(T) < 0.4
        cols[int(rng.integers(T))] = True
        traces[:, cols] = traces[0, cols]
    const_rows = []
    if degen in ('const_word', 'both') or intconst:
        w = int(rng.integers(W))
        d2[:, w] = (d2[0, w] if not intconst else int(rng.integers(2, ymax + 1))) if name != 'dpa' else int(rng.integers(2))
        const_rows = [w]
    data = gen.layout_nd(rng, d2.reshape(data.shape).astype(ddt))
    t.count('data_layout:' + ('C' if data.flags.c_contiguous else 'F' if data.flags.f_contiguous else 'strided'))
    traces = gen.layout(rng, traces)
    if degen != 'none':
        t.count('cases_with_constant_columns')
    spec = dict(name=name, precision=prec)
    obj = subjects.make(spec)
    sizes = [n] if rng.random() < 0.5 else gen.split_sizes(rng, n)
    if big:
        sizes = [20000] * (n // 20000) + ([n % 20000] if n % 20000 else [])
    pos = 0
    for s in sizes:
        obj.update(traces[pos:pos + s], data[pos:pos + s])
        pos += s
    with np.errstate(all='ignore'):
        if rng.random() < 0.4:
            first = obj.compute()
            try:
                first[...] = 7.0          # the caller's own business (e.g. NaN clean-up in place); the statistic asked for again is unaffected
            except (ValueError, TypeError):
                pass
            t.count('recomputed_after_caller_overwrote_the_first_result')
        got = np.asarray(obj.compute())
    x = np.asarray(traces)
    val, scale, undef = (oracles.dpa if name == 'dpa' else oracles.cpa)(x, data.reshape(n, -1))
    exp_shape = (tuple(ws) if len(ws) >= 2 else (W,)) + (T,)
    info = dict(case=case, n=n, T=T, ws=list(ws), tdtype=tdtype, ddt=ddt, sizes=sizes)
    t.check(got.shape == exp_shape, 'result_layout_shape', lambda: dict(info, got_shape=got.shape, expected_shape=exp_shape))
    t.check(got.dtype == np.dtype(prec) or name == 'dpa', 'result_dtype', lambda: dict(info, got_dtype=str(got.dtype)))
    if got.shape != exp_shape:
        return t.result(sig=core.digest(case), sample=info)
    got2 = got.reshape(W, T).astype(float)      # C-order: word (i, j) -> row i*b + j
    t.count('layout_entries', got2.size)
    eps = tol.eps_of(prec)
    natural = 1.0 if name != 'dpa' else float(np.max(np.abs(x.astype(float)))) + 1e-30
    if regime == 'E':
        tl = tol.C_E * eps * scale * (4 if big else 1)
        thr = tol.UNDECIDABLE_E
    else:
        tl = tol.C_R * n * eps * scale
        thr = tol.UNDECIDABLE_R
    decid = ~undef & (tl <= thr * np.maximum(np.abs(val), natural))
    t.count('entries_undecidable_by_rounding', int((~undef & ~decid).sum()))
    if regime == 'E' and big:
        t.count('nan_entries_expected', 0)
        decid &= np.isfinite(got2) | ~undef
    elif regime == 'E':
        # undefined statistic -> NaN, never inf / finite; defined and decidable -> finite and close
        t.count('nan_entries_expected', int(undef.sum()))
        bad = undef & ~np.isnan(got2)
        t.check(not bad.any(), 'undefined_entry_not_nan', lambda: dict(info, index=[int(v) for v in np.argwhere(bad)[0]], got=float(got2[tuple(np.argwhere(bad)[0])])))
        bad = decid & ~np.isfinite(got2)
        t.check(not bad.any(), 'defined_entry_not_finite', lambda: dict(info, index=[int(v) for v in np.argwhere(bad)[0]], got=float(got2[tuple(np.argwhere(bad)[0])]),
                                                                      expected=float(val[tuple(np.argwhere(bad)[0])])))
    else:
        t.count('nan_entries_expected', 0)
        if intconst:
            # integer-valued inputs: the row of the constant word is undefined whatever the rounding of the sums over the traces
            t.count('nan_entries_expected', T)
            bad = np.zeros_like(undef)
            bad[const_rows] = ~np.isnan(got2[const_rows])
            t.check(bool(undef[const_rows].all()) and not bad.any(), 'undefined_entry_not_nan', lambda: dict(info, constant_word=const_rows, got=got2[const_rows].tolist()))
        decid &= np.isfinite(got2)
    t.count('entries_compared', int(decid.sum()))
    if decid.any():
        with np.errstate(all='ignore'):
            diff = np.abs(got2 - val)
            ratio = np.where(decid, diff / np.maximum(tl, 1e-300), 0)
        t.metric('ratio_' + regime, float(np.nanmax(ratio)))
        bad = decid & np.isfinite(got2) & (diff > tl)
        t.check(not bad.any(), f'{name}_value', lambda: dict(info, index=[int(v) for v in np.argwhere(bad)[0]], got=float(got2[tuple(np.argwhere(bad)[0])]),
                                                           expected=float(val[tuple(np.argwhere(bad)[0])]), tol=float(tl[tuple(np.argwhere(bad)[0])]), n_bad=int(bad.sum())))
    sig = f'{name}|{prec}|{regime}|{degen}|{n}x{T}|{ws}|{tdtype}|{ddt}|{len(sizes)}'
    return t.result(nontrivial=bool(decid.any() or undef.any()), sig=sig,
                    sample=dict(info, entries=int(got2.size), undefined=int(undef.sum()), compared=int(decid.sum())))
