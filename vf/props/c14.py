"""C14 - templates are class means with pooled covariance; matching is Mahalanobis.

The public flow is driven (Container -> TemplateAttack / TemplateDPAAttack -> build() -> run()), with the
container batch size and the build kernel per batch dictated (hook).  Oracle: exact rational class means and
unbiased within-class covariances averaged over the declared classes (vf.oracles.template_build), scores with a
float64 pseudo-inverse of the *oracle's* covariance, candidate -> template mapping by class value.  History
clause: run() before build() is refused and leaves the object usable.
"""
import numpy as np

from .. import core, gen, oracles
from ..monitors import CONTROL

ID = 'C14'
LEVEL = 'exploration'
WORKERS = {'quick': 10, 'thorough': 14}
BUDGET_S = {'quick': 70, 'thorough': 480}
REQUIRED_COUNTERS = ['template_rows', 'pooled_matrices', 'scores_compared', 'scores_compared_end_to_end', 'pinv_compared', 'match_before_build_refused', 'build_batches_kernel0', 'build_batches_kernel1',
                     'singleton_class_cases']
RULE = ('a case = (TemplateAttack | TemplateDPAAttack, precision, 2..12 classes (any values / order), trace length 1..6, build set 1..4 batches '
        'with a dictated kernel per batch, balanced | unbalanced | with a one-trace class, matching set 1..4 batches, integer or float '
        'traces, run-before-build probe); non-trivial = templates, pooled covariance or scores compared with the oracle; distinct by all of these')
ASSUMPTIONS = ['covariance of classes with fewer than 2 building traces is undefined: the pooled covariance and the scores are not judged then '
               '(the class means still are)', 'scores compared (i) tightly with the Mahalanobis distance under the published profile (1e-10*cond float64 / 2e-5*cond float32, relative to 1+|10 - score|), (ii) end to end with the oracle profile, the tolerance carrying the covariance rounding bound amplified by the inversion; '
               'cases with cond(pooled) > 1e3 (float32) / 1e6 (float64) are counted undecidable']


def setup():
    if not CONTROL.install():
        raise core.Inconclusive('kernel-choice hook not available')


def cases(tier, seed):
    out = []
    k = 0
    for kind in ('tstatic', 'tdpa'):
        for prec in ('float32', 'float64'):
            out.append(dict(gen='tmpl', kind=kind, precision=prec, struct='singular', traces='int', sub=core.subseed('C14s', seed, kind, prec), must=True))
            out.append(dict(gen='tmpl', kind=kind, precision=prec, struct='singleton', traces='int', rebuild=True, sub=core.subseed('C14r', seed, kind, prec), must=True))
            for struct in ('balanced', 'unbalanced', 'singleton', 'empty'):
                for traces in ('int', 'float'):
                    out.append(dict(gen='tmpl', kind=kind, precision=prec, struct=struct, traces=traces, sub=core.subseed('C14', seed, k), must=True))
                    k += 1
    rs = np.random.default_rng(core.subseed('C14r', seed))
    n_rand = 220 if tier == 'quick' else 5000
    for j in range(n_rand):
        out.append(dict(gen='tmpl', kind=['tstatic', 'tdpa'][int(rs.integers(2))], precision=['float32', 'float64'][int(rs.integers(2))],
                        struct=['balanced', 'unbalanced', 'unbalanced', 'singleton', 'empty'][int(rs.integers(5))], traces=['int', 'float'][int(rs.integers(2))],
                        sub=int(rs.integers(2 ** 62))))
    return out


def run_case(case):
    import scared
    t = core.Tally()
    for c in REQUIRED_COUNTERS:
        t.count(c, 0)
    rng = gen.rng_of(case['sub'])
    kind, prec, struct = case['kind'], case['precision'], case['struct']
    K = int(rng.choice([2, 3, 4, 7, 12]))
    T = int(rng.integers(1, 7))
    mode = int(rng.integers(4))
    if mode == 3:
        declared = [int(v) for v in rng.choice(np.arange(-100, 100), K, replace=False)]       # signed intermediate values: negative class labels
        t.count('negative_class_labels')
    else:
        declared = [int(v) for v in (rng.permutation(K) if mode == 0 else (int(rng.integers(0, 200)) + rng.permutation(3 * K)[:K]) if mode == 1 else rng.choice(256, K, replace=False))]
    per = T + 5 + int(rng.integers(0, 10))
    if struct == 'singular':
        # fewer building traces than needed for a full-rank pooled covariance: the published inverse must still be the PSEUDO-inverse
        T = int(rng.integers(4, 9))
        per = 2
        t.count('singular_covariance_cases')
    counts = np.full(K, per)
    if struct == 'unbalanced':
        counts = rng.integers(T + 3, 4 * per, K)
    elif struct == 'singleton':
        counts[int(rng.integers(K))] = 1
        t.count('singleton_class_cases')
    elif struct == 'empty':
        # declared classes without any building trace (e.g. partitions=range(6) with only some values profiled), possibly a singleton too
        counts[int(rng.integers(K))] = 0
        if K > 2 and rng.random() < 0.5:
            counts[int(rng.integers(K))] = int(rng.integers(0, 2))
        t.count('empty_class_cases')
    cls_idx = np.repeat(np.arange(K), counts)
    means = rng.integers(-30, 31, (K, T)).astype(float)
    offset = 0.0
    if prec == 'float64' and rng.random() < 0.3:
        # a common DC offset much larger than the spread (raw ADC codes): quadratic forms expanded around 0 cancel catastrophically
        offset = float(rng.choice([5000.0, 40000.0]))
        means = means + offset
        t.count('large_offset_cases')
    A = rng.normal(0, 1, (T, T)) + 2.5 * np.eye(T)                # full-rank noise shaping
    noise = rng.normal(0, 1, (len(cls_idx), T)) @ A
    bsamples = means[cls_idx] + noise
    tdtype = 'float64'
    if case['traces'] == 'int':
        bsamples = np.round(bsamples * 2)
        tdtype = ['int16', 'int32', 'float32', 'float64'][int(rng.integers(4))] if not offset else ['int32', 'float64'][int(rng.integers(2))]
    else:
        tdtype = ['float32', 'float64'][int(rng.integers(2))] if not offset else 'float64'
    p = rng.permutation(len(cls_idx))
    bsamples = bsamples[p].astype(tdtype)
    bvalues = np.array(declared)[cls_idx][p].astype(('int8' if rng.random() < 0.5 else 'int16') if min(declared) < 0 else 'uint8' if max(declared) < 256 else 'uint16')
    nb = len(bvalues)
    # extra building traces with an undeclared value must be ignored
    n_foreign = int(rng.integers(0, 4))
    if n_foreign:
        fv = [v for v in (range(256) if min(declared) >= 0 else range(-120, 120)) if v not in declared][:n_foreign]
        bs_all = np.concatenate([bsamples, (rng.normal(0, 50, (n_foreign, T))).astype(tdtype)])
        bv_all = np.concatenate([bvalues, np.array(fv, dtype=bvalues.dtype)])
        q = rng.permutation(len(bv_all))
        bs_all, bv_all = bs_all[q], bv_all[q]
    else:
        bs_all, bv_all = bsamples, bvalues
    build_bs = int(rng.choice([len(bv_all), max(1, len(bv_all) // 2), max(1, len(bv_all) // 3 + 1), 7]))
    n = int(rng.choice([1, 2, 9, 40, 150]))
    tcls = rng.integers(0, K, n)
    msamples = (means[tcls] * (2 if case['traces'] == 'int' else 1) + rng.normal(0, 3, (n, T)) @ A).astype(tdtype)
    match_bs = int(rng.choice([n, max(1, n // 2), max(1, n // 3 + 1), 1 if n < 20 else 7]))

    @scared.reverse_selection_function
    def rsf(v):
        return v

    G = int(rng.integers(2, 7))
    hyp = rng.choice(declared, (n, G)).astype(bvalues.dtype)

    @scared.attack_selection_function(guesses=range(G), words=0)
    def asf(h, guesses):
        return h[:, :, None]

    bths = scared.traces.read_ths_from_ram(samples=bs_all, v=bv_all.reshape(-1, 1))
    mths = scared.traces.read_ths_from_ram(samples=msamples, h=hyp, v=np.zeros((n, 1), dtype='uint8'))

    ok_dt = [d for d in ('uint8', 'int8', 'uint16', 'int16', 'uint32', 'int64') if min(declared) >= np.iinfo(d).min and max(declared) <= np.iinfo(d).max]
    parts_as = ok_dt[int(rng.integers(len(ok_dt)))] if rng.random() < 0.4 else None
    if parts_as:
        t.count('class_list_as_ndarray')

    def new_attack():
        cb = scared.Container(bths)
        parts = np.array(declared, dtype=parts_as) if parts_as else list(declared)
        if kind == 'tstatic':
            return scared.TemplateAttack(container_building=cb, reverse_selection_function=rsf, model=scared.Value(), partitions=parts, precision=prec)
        return scared.TemplateDPAAttack(container_building=cb, reverse_selection_function=rsf, selection_function=asf, model=scared.Value(),
                                        partitions=parts, precision=prec)

    info = dict(case=case, K=K, T=T, declared=declared, counts=counts.tolist(), tdtype=tdtype, build_traces=len(bv_all), build_batch=build_bs, n=n, match_batch=match_bs,
                foreign_build_traces=n_foreign)
    att = new_attack()
    probe = rng.random() < 0.5
    try:
        if probe:
            # matching before build is refused (and, with C16, must not poison the object)
            scared.set_batch_size(match_bs)
            try:
                att.run(scared.Container(mths))
                t.check(False, 'matching_before_build_accepted', info)
            except scared.DistinguisherError:
                t.count('match_before_build_refused')
                t.check(True, '')
        nbatches = -(-len(bv_all) // build_bs)
        kseq = [int(v) for v in rng.integers(0, 2, nbatches)]
        CONTROL.force(att._build_analysis, list(kseq))
        scared.set_batch_size(build_bs)
        att.build()
        if case.get('rebuild'):
            # a second build() on the same object accumulates a second campaign (here: the same building set once more)
            CONTROL.force(att._build_analysis, [int(v) for v in rng.integers(0, 2, nbatches)])
            att.build()
            t.count('second_build_calls')
        for c in CONTROL.choices_of(att._build_analysis):
            t.count(f'build_batches_kernel{c}')
        scared.set_batch_size(match_bs)
        att.run(scared.Container(mths))
    finally:
        scared.set_batch_size(None)
    info['build_kernels'] = kseq
    templates = np.asarray(att.templates, dtype=float)
    pooled = np.asarray(att.pooled_covariance, dtype=float)
    scores = np.asarray(att.scores, dtype=float).ravel()
    if case.get('rebuild'):
        bsamples, bvalues = np.concatenate([bsamples, bsamples]), np.concatenate([bvalues, bvalues])
        counts = counts * 2
        nb = len(bvalues)
    m_or, p_or, small = oracles.template_build(bsamples.astype(float) if np.dtype(tdtype).kind == 'f' else bsamples, bvalues, declared)
    eps = float(np.finfo(prec).eps)
    t.check(templates.shape == (K, T), 'templates_shape', lambda: dict(info, got=templates.shape))
    for i in range(K):
        if np.isnan(m_or[i]).any():
            continue
        t.count('template_rows')
        ok = bool(np.all(np.abs(templates[i] - m_or[i]) <= 4 * eps * np.abs(m_or[i]) + (1e-300 if case['traces'] == 'int' else 8 * counts[i] * eps * np.abs(bsamples.astype(float)).max())))
        t.check(ok, 'template_is_not_class_mean', lambda: dict(info, class_value=declared[i], class_count=int(counts[i]), got=templates[i].tolist(), expected=m_or[i].tolist()))
    if small:
        t.count('pooled_with_single_trace_classes')
    # pooled covariance
    scale = np.abs(bsamples.astype(float)).max() ** 2
    t.count('pooled_matrices')
    ptol = (64 if case['traces'] == 'int' else 16 * nb) * eps * scale
    t.metric('pooled_ratio', float(np.max(np.abs(pooled - p_or)) / ptol))
    t.check(pooled.shape == (T, T) and bool(np.all(np.abs(pooled - p_or) <= ptol)), 'pooled_covariance_differs',
            lambda: dict(info, got=pooled.tolist()[:2], expected=p_or.tolist()[:2], tol=ptol))
    if small and np.isnan(m_or).any():
        return t.result(sig=f"{kind}|{prec}|{struct}|{K}|{T}|{tdtype}|{build_bs}|{n}", sample=dict(info, judged='class means only (a declared class has no building trace)'))
    cond = float(np.linalg.cond(p_or))
    if struct == 'singular':
        # (a') the published inverse is the Moore-Penrose pseudo-inverse of the published matrix (same default cut-off as numpy.linalg.pinv)
        inv_obs = np.asarray(att.pooled_covariance_inv, dtype=float)
        inv_ref = np.linalg.pinv(pooled)
        t.count('pinv_compared')
        t.check(inv_obs.shape == inv_ref.shape and bool(np.all(np.abs(inv_obs - inv_ref) <= 1e-6 * (np.abs(inv_ref).max() + 1e-300))), 'pooled_inverse_is_not_pinv',
                lambda: dict(info, got_max=float(np.abs(inv_obs).max()), expected_max=float(np.abs(inv_ref).max()), rank=int(np.linalg.matrix_rank(pooled)), size=T))
        return t.result(sig=f"{kind}|{prec}|singular|{K}|{T}|{tdtype}", sample=dict(info, judged='class means, pooled covariance, pseudo-inverse (singular covariance: scores not judged)'))
    if cond > (1e3 if prec == 'float32' else 1e6):
        t.count('undecidable_by_conditioning')
        return t.result(sig=f"{kind}|{prec}|{struct}|{K}|{T}|{tdtype}|{build_bs}|{n}", sample=dict(info, cond=cond))
    x = msamples.astype(float)
    row_of = {v: i for i, v in enumerate(declared)}
    if kind == 'tstatic':
        cand = [np.full(n, i) for i in range(K)]
    else:
        cand = [np.array([row_of[int(v)] for v in hyp[:, g]]) for g in range(G)]

    def maha(mean_rows, inv):
        out = []
        for ix in cand:
            d = x - mean_rows[ix]
            out.append(10 - float(np.sum((d @ inv) * d)) / (T * n))
        return np.array(out)

    base_rtol = (2e-5 if prec == 'float32' else 1e-10) * max(cond, 1.0)
    # (a) pseudo-inverse clause: the published inverse is the pseudo-inverse of the published pooled covariance
    inv_obs = np.asarray(att.pooled_covariance_inv, dtype=float)
    inv_ref = np.linalg.pinv(pooled)
    t.count('pinv_compared')
    t.check(inv_obs.shape == (T, T) and bool(np.all(np.abs(inv_obs - inv_ref) <= 64 * eps * cond * np.abs(inv_ref).max())), 'pooled_inverse_is_not_pinv',
            lambda: dict(info, got=inv_obs.tolist()[:2], expected=inv_ref.tolist()[:2], cond=cond))
    # (b) matching clause, tight: Mahalanobis distance to the candidate's template with the *published* profile
    exp_b = maha(templates, inv_obs)
    t.count('scores_compared', len(exp_b))
    ok = scores.shape == exp_b.shape and bool(np.all(np.abs(scores - exp_b) <= base_rtol * (1 + np.abs(10 - exp_b))))
    if scores.shape == exp_b.shape:
        t.metric('score_ratio', float(np.max(np.abs(scores - exp_b) / (base_rtol * (1 + np.abs(10 - exp_b))))))
    t.check(ok, 'score_is_not_mahalanobis', lambda: dict(info, got=scores.tolist(), expected=exp_b.tolist(), rtol=base_rtol, cond=cond))
    # (c) end to end against the oracle's own profile: the rounding of the covariance accumulation in the requested precision
    # (bounded by ptol, checked above) is amplified by the inversion, so the tolerance carries ptol * ||P^-1||
    Minv = np.linalg.pinv(p_or)
    exp = maha(m_or, Minv)
    amp = ptol * float(np.linalg.norm(Minv, 2))
    rtol = base_rtol + 4 * amp
    if amp > 0.02:
        t.count('end_to_end_undecidable_by_rounding')
    else:
        t.count('scores_compared_end_to_end', len(exp))
        ok2 = scores.shape == exp.shape and bool(np.all(np.abs(scores - exp) <= rtol * (1 + np.abs(10 - exp))))
        if scores.shape == exp.shape:
            t.metric('score_e2e_ratio', float(np.max(np.abs(scores - exp) / (rtol * (1 + np.abs(10 - exp))))))
        t.check(ok2, 'score_is_not_mahalanobis_of_definition', lambda: dict(info, got=scores.tolist(), expected=exp.tolist(), rtol=rtol, cond=cond))
    if ok and n >= 9 and kind == 'tstatic':
        # consequence stated by the property: the best-matching candidate has the highest score
        t.check(int(np.argmax(scores)) == int(np.argmax(exp)), 'best_candidate_differs', lambda: dict(info, got=scores.tolist(), expected=exp.tolist()))
    if probe:
        # the refused run left no trace: same scores as an attack that never saw it
        att2 = new_attack()
        try:
            CONTROL.force(att2._build_analysis, list(kseq))
            scared.set_batch_size(build_bs)
            att2.build()
            if case.get('rebuild'):
                att2.build()
            scared.set_batch_size(match_bs)
            att2.run(scared.Container(mths))
        finally:
            scared.set_batch_size(None)
        t.check(np.array_equal(np.asarray(att2.scores), np.asarray(att.scores)) and att.processed_traces == n, 'refused_run_before_build_left_a_trace',
                lambda: dict(info, scores=np.asarray(att.scores).ravel().tolist(), scores_clean=np.asarray(att2.scores).ravel().tolist(), processed=att.processed_traces))
    return t.result(sig=f"{kind}|{prec}|{struct}|{K}|{T}|{tdtype}|{build_bs}|{n}|{match_bs}", sample=dict(info, cond=cond, comparisons=t.checks))
