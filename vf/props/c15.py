"""C15 - leakage models and discriminants compute their definitions on every value.

Oracle: python int.bit_count / shifts / identity, naive NaN-skipping reducers written with python loops.
Monitors: inputs are passed read-only (numpy refuses any write into the caller's array at the moment it
happens) and digest-compared afterwards; output shape/dtype-kind contracts; counters of values checked.
"""
import itertools
import math

import numpy as np

from .. import core

ID = 'C15'
LEVEL = 'exploration'
WORKERS = {'quick': 1, 'thorough': 12}
BUDGET_S = {'quick': 40, 'thorough': 200}
REQUIRED_COUNTERS = ['hw_values', 'monobit_values', 'value_values', 'disc_slices', 'nb_words_groups', 'model_reuse_calls', 'long_axis_cases']
RULE = ('cases: exhaustive uint8/uint16 popcount (flag exhaustive), per-byte-lane exhaustive + lane pairs + random for '
        'uint32/uint64, nb_words 1..8 on every axis of random 1-4-D shapes (lengths not divisible included), Monobit bit x '
        'dtype grid, Value, five discriminants on random float arrays with NaN patterns on every axis; a case is '
        'non-trivial when at least one value was compared with the python oracle; distinct = distinct case signature '
        '(generator, dtype, shape, axis, parameter)')
ASSUMPTIONS = ['python int.bit_count, >> and & are correct', 'numpy array construction and comparison are correct',
               'Monobit(8) on uint8 data is outside the domain (numpy 2 raises OverflowError)']

UDT = ['uint8', 'uint16', 'uint32', 'uint64']


def exhaustive_note(tier):
    return ['HammingWeight on all 256 uint8 values', 'HammingWeight on all 65536 uint16 values',
            'HammingWeight on every byte value in every lane of uint32 and uint64',
            'Monobit(b) for every b and every uint8 value; every b in 0..8 and every uint16 value']


def cases(tier, seed):
    out = [dict(gen='hw_all8', must=True), dict(gen='hw_all16', must=True),
           dict(gen='hw_lanes', dtype='uint32', must=True), dict(gen='hw_lanes', dtype='uint64', must=True),
           dict(gen='monobit_all', must=True), dict(gen='hw_rejects', must=True)]
    n_rand = 60 if tier == 'quick' else 3000
    rs = np.random.default_rng(core.subseed('C15', seed))
    for k in range(n_rand):
        out.append(dict(gen='hw_words', dtype=UDT[k % 4], ndim=int(rs.integers(1, 5)), nb_words=int(rs.integers(1, 9)),
                        sub=int(rs.integers(2 ** 62))))
    # wide groups and saturated words: the group sum reaches nb_words * bits (256, 512, ... - the limits of narrow accumulators)
    for dt in UDT:
        bits = np.dtype(dt).itemsize * 8
        for nbw in sorted(set([256 // bits, 2 * 256 // bits, 65536 // bits if 65536 // bits <= 4096 else 4096, 33, 17, 100])):
            if nbw >= 1:
                out.append(dict(gen='hw_words', dtype=dt, ndim=int(rs.integers(1, 4)), nb_words=int(nbw), saturated=True, sub=int(rs.integers(2 ** 62)), must=nbw * bits in (256, 512)))
    for k in range(n_rand // 3):
        out.append(dict(gen='hw_words', dtype=UDT[k % 4], ndim=int(rs.integers(1, 4)), nb_words=int(rs.choice([9, 12, 16, 31, 32, 33, 64, 128, 255, 256, 257])),
                        saturated=bool(k % 2), sub=int(rs.integers(2 ** 62))))
    for k in range(n_rand // 2):
        out.append(dict(gen='hw_random', dtype=UDT[2 + k % 2], n=2000 if tier == 'quick' else 20000, sub=int(rs.integers(2 ** 62))))
    for k in range(n_rand):
        out.append(dict(gen='monobit', ndim=int(rs.integers(1, 5)), sub=int(rs.integers(2 ** 62))))
        out.append(dict(gen='value', ndim=int(rs.integers(1, 5)), sub=int(rs.integers(2 ** 62))))
    for k in range(n_rand * 2):
        out.append(dict(gen='disc', ndim=int(rs.integers(2, 5)), sub=int(rs.integers(2 ** 62)), nanmode=k % 5))
    # infinite entries are values, not missing entries: +inf / -inf alone and together in one reduced slice
    for k in range(12 if tier == 'quick' else 400):
        out.append(dict(gen='disc', ndim=int(rs.integers(1, 4)) + 1, sub=int(rs.integers(2 ** 62)), nanmode=5, must=k < 4))
    # arrays stored in the other byte order (a big-endian acquisition dump read with its own dtype)
    for k in range(12 if tier == 'quick' else 300):
        out.append(dict(gen=['value', 'monobit', 'hw_words'][k % 3], ndim=int(rs.integers(1, 4)), nb_words=int(rs.integers(1, 4)), dtype=UDT[1 + k % 3], swapped=True, sub=int(rs.integers(2 ** 62)), must=k < 6))
    for k in range(6 if tier == 'quick' else 120):
        out.append(dict(gen='disc', ndim=2, long_axis=True, sub=int(rs.integers(2 ** 62)), nanmode=[0, 1, 3][k % 3], must=k < 3))
    # model instances are reused batch after batch: the same instance called again must not remember the previous call
    for k in range(20 if tier == 'quick' else 600):
        out.append(dict(gen='model_reuse', sub=int(rs.integers(2 ** 62)), must=k < 4))
    return out


def _ro(a):
    a = np.array(a, copy=True)
    a.setflags(write=False)
    return a


def _popcount_oracle(arr):
    return np.array([int(v).bit_count() for v in arr.ravel().tolist()], dtype='int64').reshape(arr.shape)


def _check_hw(t, arr, tag):
    import scared
    snap = arr.tobytes()
    got = scared.HammingWeight(expected_dtype=arr.dtype)(arr)
    exp = _popcount_oracle(arr)
    t.count('hw_values', arr.size)
    ok = got.shape == arr.shape and np.array_equal(got.astype('int64'), exp)
    t.check(ok, 'hw_value', lambda: _first_diff(arr, got, exp, tag))
    t.check(arr.tobytes() == snap, 'input_modified', tag)


def _first_diff(arr, got, exp, tag):
    if got.shape != exp.shape:
        return dict(tag=tag, got_shape=got.shape, exp_shape=exp.shape)
    idx = np.argwhere(got.astype('int64') != exp)[0]
    return dict(tag=tag, value=int(arr[tuple(idx)]), got=int(got[tuple(idx)]), expected=int(exp[tuple(idx)]))


def run_case(case):
    import scared
    t = core.Tally()
    g = case['gen']
    rng = np.random.default_rng(case.get('sub', 0))
    sig = None
    if g == 'hw_all8':
        _check_hw(t, _ro(np.arange(256, dtype='uint8')), 'all uint8')
    elif g == 'hw_all16':
        _check_hw(t, _ro(np.arange(65536, dtype='uint16')), 'all uint16')
        _check_hw(t, _ro(np.arange(65536, dtype='uint16').reshape(256, 256).T), 'all uint16 transposed view')
    elif g == 'hw_lanes':
        dt = np.dtype(case['dtype'])
        nb = dt.itemsize
        vals = [b << (8 * lane) for lane in range(nb) for b in range(256)]
        # lane pairs on a value grid, and all-ones backgrounds
        grid = [0x01, 0x80, 0xff, 0x55, 0xaa, 0x0f, 0xf0, 0x7f]
        for l1, l2 in itertools.combinations(range(nb), 2):
            for a in grid:
                for b in grid:
                    vals.append((a << (8 * l1)) | (b << (8 * l2)))
        full = (1 << (8 * nb)) - 1
        vals += [full ^ v for v in vals[:256 * nb]]
        _check_hw(t, _ro(np.array(vals, dtype=dt)), f'lanes {dt}')
    elif g == 'hw_random':
        dt = np.dtype(case['dtype'])
        arr = rng.integers(0, np.iinfo(dt).max, case['n'], dtype=dt, endpoint=True)
        _check_hw(t, _ro(arr), f'random {dt}')
    elif g == 'hw_words':
        dt = np.dtype(case['dtype'])
        ndim, k = case['ndim'], case['nb_words']
        axis = int(rng.integers(0, ndim))
        shape = [int(rng.integers(1, 5)) for _ in range(ndim)]
        shape[axis] = int(rng.integers(k, 3 * k + 2))
        a0 = rng.integers(0, np.iinfo(dt).max, shape, dtype=dt, endpoint=True)
        if case.get('saturated'):
            # whole groups of all-ones / all-zero words, and words with a single bit cleared
            pick = rng.integers(0, 4, shape)
            mx = np.array(np.iinfo(dt).max, dtype=dt)
            a0 = np.where(pick == 0, a0, np.where(pick == 1, mx, np.where(pick == 2, np.array(0, dtype=dt), mx - np.array(1, dtype=dt)))).astype(dt)
            sl = [slice(None)] * ndim
            sl[axis] = slice(0, k)
            a0[tuple(sl)] = np.array(np.iinfo(dt).max, dtype=dt)             # the first group of every line is saturated
            t.count('saturated_group_cases')
        if case.get('swapped'):
            dt = dt.newbyteorder()
            a0 = a0.astype(dt)
            t.count('other_byte_order_cases')
        arr = _ro(a0)
        use_default_axis = axis == ndim - 1 and rng.integers(2) == 1
        m = scared.HammingWeight(nb_words=k, expected_dtype=dt)
        got = m(arr) if use_default_axis else m(arr, axis=axis)
        pc = _popcount_oracle(arr)
        ngroups = shape[axis] // k
        exp_shape = list(shape)
        exp_shape[axis] = ngroups
        exp = np.zeros(exp_shape, dtype='int64')
        for idx in itertools.product(*[range(s) for s in exp_shape]):
            tot = 0
            for j in range(k):
                src = list(idx)
                src[axis] = idx[axis] * k + j
                tot += int(pc[tuple(src)])
            exp[idx] = tot
        t.count('nb_words_groups', exp.size)
        t.count('hw_values', arr.size)
        t.check(list(got.shape) == exp_shape and np.array_equal(np.asarray(got).astype('int64'), exp), 'hw_nb_words',
                lambda: dict(dtype=str(dt), shape=shape, axis=axis, nb_words=k, got=np.asarray(got).tolist()[:4], expected=exp.tolist()[:4]))
        sig = f'hw_words|{dt}|{shape}|{axis}|{k}'
    elif g == 'model_reuse':
        dt = np.dtype(UDT[int(rng.integers(4))])
        k = int(rng.choice([1, 2, 3, 4, 8]))
        ndim = int(rng.integers(1, 4))
        axis = int(rng.integers(0, ndim))
        shape = [int(rng.integers(1, 5)) for _ in range(ndim)]
        shape[axis] = k * int(rng.integers(1, 5))
        kind = ['hw', 'monobit', 'value'][int(rng.integers(3))]
        m = scared.HammingWeight(nb_words=k, expected_dtype=dt) if kind == 'hw' else scared.Monobit(int(rng.integers(0, 8))) if kind == 'monobit' else scared.Value()
        kept = []
        for call in range(4):
            arr = _ro(rng.integers(0, np.iinfo(dt).max, shape, dtype=dt, endpoint=True))
            got = m(arr, axis=axis) if kind == 'hw' else m(arr)
            if kind == 'hw':
                pc = _popcount_oracle(arr)
                exp = np.add.reduceat(pc, np.arange(0, shape[axis], k), axis=axis) if k > 1 else pc
            elif kind == 'monobit':
                exp = (arr.astype('uint64') >> np.uint64(m.bit)) & np.uint64(1)
            else:
                exp = arr
            t.count('model_reuse_calls')
            t.count('hw_values' if kind == 'hw' else 'monobit_values' if kind == 'monobit' else 'value_values', arr.size)
            t.check(np.shape(got) == np.shape(exp) and np.array_equal(np.asarray(got).astype('int64'), np.asarray(exp).astype('int64')), 'model_result_depends_on_earlier_calls',
                    lambda: dict(model=kind, dtype=str(dt), shape=shape, axis=axis, nb_words=k, call=call))
            for (old, copy_, c0) in kept:
                t.check(np.array_equal(old, copy_), 'earlier_result_overwritten_by_later_call', lambda: dict(model=kind, dtype=str(dt), shape=shape, nb_words=k, call=call, earlier_call=c0))
            if kind != 'value':
                kept.append((got, np.array(got, copy=True), call))
        t.count('nb_words_groups', 1)
        sig = f'model_reuse|{kind}|{dt}|{shape}|{axis}|{k}'
    elif g == 'hw_rejects':
        # out-of-domain inputs must be refused, not silently mis-computed (signed, float, wrong expected dtype)
        for arr, kw in [(np.array([[1, 2]], dtype='int8'), {}), (np.array([[1.0]], dtype='float32'), {}),
                        (np.array([[1, 2]], dtype='uint16'), {}), (np.array([[1, 2]], dtype='uint8'), dict(nb_words=3))]:
            try:
                scared.HammingWeight(**kw)(arr)
                t.check(False, 'hw_accepts_out_of_domain', dict(dtype=str(arr.dtype), kw=kw))
            except (ValueError, TypeError):
                t.check(True, '')
        t.count('hw_values', 1)
        t.count('nb_words_groups', 1)
    elif g == 'monobit_all':
        for dt, bits in [('uint8', range(8)), ('uint16', range(9))]:
            arr = _ro(np.arange(np.iinfo(dt).max + 1, dtype=dt))
            for b in bits:
                got = scared.Monobit(b)(arr)
                exp = np.array([(v >> b) & 1 for v in range(arr.size)], dtype='int64')
                t.count('monobit_values', arr.size)
                t.check(got.shape == arr.shape and np.array_equal(got.astype('int64'), exp), 'monobit_value',
                        lambda: dict(dtype=dt, bit=b, first_bad=int(np.argwhere(got.astype('int64') != exp)[0][0])))
    elif g == 'monobit':
        dts = ['uint8', 'uint16', 'uint32', 'uint64', 'int16', 'int32', 'int64']
        dt = np.dtype(dts[int(rng.integers(len(dts)))])
        maxbit = 7 if dt == np.dtype('uint8') else 8
        b = int(rng.integers(0, maxbit + 1))
        shape = [int(rng.integers(1, 6)) for _ in range(case['ndim'])]
        info = np.iinfo(dt)
        a0 = rng.integers(info.min, info.max, shape, dtype=dt, endpoint=True)
        if case.get('swapped'):
            dt = dt.newbyteorder() if dt.itemsize > 1 else np.dtype('>u4')
            a0 = a0.astype(dt)
            t.count('other_byte_order_cases')
        arr = _ro(a0)
        axis = int(rng.integers(0, case['ndim']))
        got = scared.Monobit(b)(arr, axis=axis)
        exp = np.array([(int(v) >> b) & 1 for v in arr.ravel().tolist()], dtype='int64').reshape(shape)
        t.count('monobit_values', arr.size)
        t.check(list(got.shape) == shape and np.array_equal(got.astype('int64'), exp), 'monobit_value',
                lambda: dict(dtype=str(dt), bit=b, shape=shape))
        sig = f'monobit|{dt}|{b}|{shape}'
    elif g == 'value':
        dts = ['uint8', 'int8', 'uint16', 'int32', 'uint64', 'float32', 'float64']
        dt = np.dtype(dts[int(rng.integers(len(dts)))])
        shape = [int(rng.integers(1, 6)) for _ in range(case['ndim'])]
        a0 = (rng.normal(0, 100, shape)).astype(dt) if dt.kind == 'f' else rng.integers(np.iinfo(dt).min, np.iinfo(dt).max, shape, dtype=dt, endpoint=True)
        if case.get('swapped'):
            dt = dt.newbyteorder() if dt.itemsize > 1 else np.dtype('>i2')
            a0 = a0.astype(dt)
            t.count('other_byte_order_cases')
        arr = _ro(a0)
        snap = arr.tobytes()
        got = scared.Value()(arr, axis=int(rng.integers(0, case['ndim'])))
        t.count('value_values', arr.size)
        same = got.shape == arr.shape and np.array_equal(np.asarray(got), a0) and np.asarray(got).astype('float64').tolist() == a0.astype('float64').tolist()
        t.check(same and (case.get('swapped') or (got.dtype == arr.dtype and got.tobytes() == snap)), 'value_identity', dict(dtype=str(dt), shape=shape))
        t.check(arr.tobytes() == snap, 'input_modified', 'Value')
        sig = f'value|{dt}|{shape}'
    elif g == 'disc':
        ndim = case['ndim']
        shape = [int(rng.integers(1, 6)) for _ in range(ndim)]
        if case.get('long_axis'):
            # results of a real attack: thousands of samples, with whole windows of NaN (constant samples)
            ndim = 2
            shape = [int(rng.integers(1, 4)), int(rng.choice([4096, 4097, 8191, 9000, 12000, 16385]))]
            if rng.random() < 0.5:
                shape = shape[::-1]
        dt = ['float32', 'float64'][int(rng.integers(2))]
        arr = rng.normal(0, 10, shape).astype(dt)
        # integers-valued floats half of the time so that sums are exact whatever the order
        exact = bool(rng.integers(2))
        if exact:
            arr = np.round(arr)
        mode = case['nanmode']
        if mode == 1:
            arr[rng.random(shape) < 0.3] = np.nan
        elif mode == 2:
            arr[rng.random(shape) < 0.8] = np.nan
        elif mode == 3 and arr.size:
            # one complete slice of NaN along a random axis
            ax = int(rng.integers(ndim))
            sl = [slice(None)] * ndim
            sl[ax] = int(rng.integers(shape[ax]))
            arr[tuple(sl)] = np.nan
        elif mode == 4:
            arr[rng.random(shape) < 0.2] = np.nan
            arr = -np.abs(arr)     # all negative: max of abs / opposite of min differ from plain max
        elif mode == 5:
            arr[rng.random(shape) < 0.15] = np.nan
            r = rng.random(shape)
            arr[r < 0.12] = np.inf
            arr[(r >= 0.12) & (r < 0.2)] = -np.inf
            t.count('infinite_entry_cases')
        if case.get('long_axis'):
            la = int(np.argmax(shape))
            for _ in range(int(rng.integers(1, 4))):
                a0 = int(rng.choice([0, 1024, 2048, 4096, 8192, int(rng.integers(0, shape[la]))]))
                ln = int(rng.choice([1024, 4096, 4097, shape[la]]))
                sl = [slice(None)] * 2
                sl[la] = slice(a0, a0 + ln)
                other = int(rng.integers(shape[1 - la]))
                sl[1 - la] = other
                arr[tuple(sl)] = np.nan
            t.count('long_axis_cases')
        arr = _ro(arr)
        snap = arr.tobytes()
        axis = int(rng.integers(0, ndim))
        if case.get('long_axis'):
            axis = int(np.argmax(shape))
        use_default = axis == ndim - 1 and bool(rng.integers(2))
        for name in ['nanmax', 'maxabs', 'opposite_min', 'nansum', 'abssum']:
            f = getattr(scared, name)
            with np.errstate(all='ignore'):
                got = f(arr) if use_default else f(arr, axis=axis)
            out_shape = [s for i, s in enumerate(shape) if i != axis]
            ok = list(np.shape(got)) == out_shape
            bad = None
            if ok:
                for idx in itertools.product(*[range(s) for s in out_shape]):
                    src = list(idx)
                    src.insert(axis, slice(None))
                    vals = [float(v) for v in arr[tuple(src)].tolist() if not math.isnan(v)]
                    g_v = float(got[idx])
                    if name == 'nanmax':
                        e = max(vals) if vals else math.nan
                    elif name == 'maxabs':
                        e = max(abs(v) for v in vals) if vals else math.nan
                    elif name == 'opposite_min':
                        e = -min(vals) if vals else math.nan
                    elif name in ('nansum', 'abssum'):
                        vv = vals if name == 'nansum' else [abs(v) for v in vals]
                        pinf, ninf = any(v == math.inf for v in vv), any(v == -math.inf for v in vv)
                        e = math.nan if (pinf and ninf) else math.inf if pinf else -math.inf if ninf else math.fsum(vv)
                    t.count('disc_slices')
                    if math.isnan(e):
                        good = math.isnan(g_v)
                    elif math.isinf(e):
                        good = g_v == e
                    elif name in ('nansum', 'abssum') and not exact:
                        eps = np.finfo(dt).eps
                        good = abs(g_v - e) <= 4 * len(vals) * eps * math.fsum(abs(v) for v in vals if not math.isinf(v)) + 1e-300
                    else:
                        good = g_v == e
                    if not good and bad is None:
                        bad = dict(disc=name, index=idx, got=g_v, expected=e, values=vals[:8])
            t.check(ok and bad is None, f'disc_{name}',
                    lambda: bad or dict(disc=name, got_shape=np.shape(got), expected_shape=out_shape, axis=axis))
        t.check(arr.tobytes() == snap, 'input_modified', 'discriminant')
        sig = f'disc|{dt}|{shape}|{axis}|{mode}|{exact}'
    else:
        raise core.Inconclusive(f'unknown generator {g}')
    return t.result(sig=sig or g + str(case.get('dtype', '')), sample=dict(case=case, comparisons=t.checks, counters=dict(t.counters)))
