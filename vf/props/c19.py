"""C19 - signal helpers equal windowed definitions; peak search keeps isolated maxima.

Oracles: naive per-window statistics in exact rational arithmetic (integer signals) or long double (float signals)
with a per-window condition number for the tolerance; naive Pearson / Euclid / BCDC per window; naive scanners for
runs; the three-clause peak specification evaluated on the *returned set* (so any correct elimination policy
passes): (1) only candidates (local maxima >= height), (2) pairwise distance >= min_peak_distance, (3) every
dropped candidate has another candidate closer than min_peak_distance whose value is at least as large.
Small signals are enumerated exhaustively.  The serial numba core also runs in a child with NUMBA_BOUNDSCHECK=1.
"""
from fractions import Fraction
import itertools
import json
import math
import os
import subprocess
import sys

import numpy as np

from .. import core, gen, VERIF_DIR, REPO_DIR

ID = 'C19'
LEVEL = 'exploration'
WORKERS = {'quick': 10, 'thorough': 14}
BUDGET_S = {'quick': 45, 'thorough': 360}
REQUIRED_COUNTERS = ['moving_windows', 'pattern_windows', 'pad_cells', 'extract_rows', 'peak_calls', 'peak_calls_exhaustive', 'width_calls', 'peak_candidates_dropped',
                     'boundscheck_peak_calls', 'history_calls', 'extract_many_calls']
RULE = ('cases: moving_{sum,mean,var,std,skew,kurtosis} on 1-3-D integer and float arrays, every axis, windows 1..len; correlation / distance / bcdc on '
        'integer and float traces with embedded / scaled / constant-offset patterns; pad and extract_around_indexes on random shapes / offsets / modes; '
        'find_peaks: ALL signals of length <= 6 (quick) / 7 (thorough) over {0,1,2,3} x distances 0..8 x heights {-inf, 1, 2.5} (flag exhaustive) + random '
        'signals to length 400 with plateaus, ties, peaks at both ends; find_width: random run-structured signals x direction x bounds (+ all signals of '
        'length <= 7 over 3 levels); non-trivial = at least one window / call compared; distinct by generator parameters')
ASSUMPTIONS = ['python fractions / long double two-pass statistics are correct', 'windows of zero variance are not judged for std-normalised statistics (skew, kurtosis, correlation, bcdc)',
               'tolerance = 64 * eps * condition number computed from the exact value of each window (cumulative-sum implementation: scales are global sums)',
               'extract_around_indexes is judged for windows that lie inside the signal (what happens at the borders is not documented)']


def exhaustive_note(tier):
    L = 6 if tier == 'quick' else 7
    return [f'find_peaks on every signal of length 1..{L} over the values {{0,1,2,3}} x min_peak_distance 0..8 x min_peak_height in (-inf, 1, 2.5), int64 and float64 data',
            'find_width on every signal of length 1..7 over 3 levels x both directions x 4 bound settings']


def cases(tier, seed):
    out = []
    Lmax = 6 if tier == 'quick' else 7
    for L in range(1, Lmax + 1):
        if L <= 4:
            out.append(dict(gen='peaks_exh', L=L, first=None, must=True))
        else:
            for first in range(4):
                out.append(dict(gen='peaks_exh', L=L, first=first, must=True))
    for L in range(1, 8):
        out.append(dict(gen='width_exh', L=L, must=True))
    out.append(dict(gen='peaks_boundscheck', n=300 if tier == 'quick' else 3000, sub=core.subseed('C19b', seed), must=True))
    # thousands of indexes in one extraction; one buffer refilled in place between calls
    for j, k in enumerate((1025, 1500, 2500, 4097)):
        out.append(dict(gen='extract_many', k=k, sub=core.subseed('C19em', seed, j), must=True))
    for j in range(6 if tier == 'quick' else 200):
        out.append(dict(gen='history', sub=core.subseed('C19h', seed, j), must=j < 6))
    rs = np.random.default_rng(core.subseed('C19', seed))
    n_rand = 2500 if tier == 'quick' else 40000
    kinds = ['moving'] * 4 + ['pattern'] * 2 + ['pad', 'extract'] + ['peaks'] * 3 + ['width'] * 2
    for j in range(n_rand):
        out.append(dict(gen=kinds[int(rs.integers(len(kinds)))], sub=int(rs.integers(2 ** 62)), must=j < 60))
    return out


# ---------------------------------------------------------------------------------------------------------
# moving operators

def _moments_exact(win):
    """window (list of python ints or Fractions) -> m1..m4 as Fractions"""
    w = len(win)
    return [Fraction(sum(v ** k for v in win), w) for k in (1, 2, 3, 4)]


def run_moving(case):
    from scared import signal_processing as sp
    t = core.Tally()
    rng = gen.rng_of(case['sub'])
    ndim = int(rng.integers(1, 4))
    shape = tuple(int(v) for v in rng.integers(1, 7, ndim))
    axis = int(rng.integers(-ndim, ndim))
    ax = axis % ndim
    shape = shape[:ax] + (int(rng.integers(1, 40)),) + shape[ax + 1:]
    L = shape[ax]
    integral = bool(rng.random() < 0.6)
    if integral:
        dt = ['int8', 'uint8', 'int16', 'int32', 'int64', 'float64', 'float32'][int(rng.integers(7))]
        hi = int(rng.choice([1, 3, 30, 120]))
        lo = 0 if dt == 'uint8' or rng.random() < 0.3 else -hi
        data = rng.integers(lo, hi + 1, shape).astype(dt)
        if rng.random() < 0.3:      # plateaus -> zero-variance windows
            data = np.repeat(data, 3, axis=ax)[tuple(slice(0, L) if i == ax else slice(None) for i in range(ndim))]
    else:
        dt = ['float64', 'float32'][int(rng.integers(2))]
        scale = float(rng.choice([1.0, 1.0, 1e-6, 1e-9, 1e6])) if dt == 'float64' else 1.0
        data = (scale * rng.normal(float(rng.choice([0, 5, -200])), float(rng.choice([1, 20])), shape)).astype(dt)      # incl. traces in micro / nano units
    op = ['sum', 'mean', 'var', 'std', 'skew', 'kurtosis'][int(rng.integers(6))]
    w = int(rng.integers(1, L + 1)) if rng.random() < 0.8 else int(rng.choice([1, L]))
    info = dict(op=op, shape=shape, axis=axis, window=w, dtype=dt)
    f = getattr(sp, 'moving_' + op)
    snap = data.tobytes()
    ro = data.copy()
    ro.setflags(write=False)
    with np.errstate(all='ignore'):
        out = np.asarray(f(ro, w, axis))
    t.check(data.tobytes() == snap, 'input_modified', info)
    exp_shape = shape[:ax] + (L - w + 1,) + shape[ax + 1:]
    if not t.check(out.shape == exp_shape, 'moving_shape', lambda: dict(info, got=out.shape, expected=exp_shape)):
        return t.result()
    eps = float(np.finfo('float64').eps)
    dm = np.moveaxis(data, ax, -1).reshape(-1, L)
    om = np.moveaxis(out, ax, -1).reshape(-1, L - w + 1)
    nbad = 0
    first_bad = None
    for r in range(dm.shape[0]):
        row = dm[r]
        if integral:
            vals = [int(v) for v in row.tolist()]
        else:
            vals = [Fraction(float(v)) for v in row.tolist()]      # floats are exact rationals
        G = [sum(abs(v) ** k for v in vals) / w for k in (1, 2, 3, 4)]   # global scales (cumulative sums)
        G = [float(g) for g in G]
        for i in range(L - w + 1):
            m1, m2, m3, m4 = _moments_exact(vals[i:i + w])
            v = m2 - m1 * m1
            a1 = abs(float(m1))
            got = float(om[r, i])
            if op == 'sum':
                exp, tl = float(m1 * w), 8 * eps * G[0] * w * (1 if w > 1 else 0)
            elif op == 'mean':
                exp, tl = float(m1), 8 * eps * G[0] * (1 if w > 1 else 0) + eps * a1
            elif op in ('var', 'std'):
                sv = G[1] + 2 * G[0] * a1 + a1 * a1
                if op == 'var':
                    exp, tl = float(v), 16 * eps * sv
                else:
                    if v == 0:
                        # sqrt of a rounding residue: anything within sqrt of the variance tolerance (NaN for a negative residue)
                        t.count('zero_variance_windows')
                        if not (math.isnan(got) or abs(got) <= math.sqrt(16 * eps * sv) * 1.01):
                            nbad += 1
                            first_bad = first_bad or dict(row=r, window_start=i, got=got, expected=0.0)
                        t.count('moving_windows')
                        continue
                    exp = math.sqrt(float(v))
                    tl = 16 * eps * sv / (2 * exp) + 4 * eps * exp
                    if 16 * eps * sv > 0.25 * float(v):
                        t.count('undecidable_by_rounding')
                        continue
            else:
                if v == 0:
                    t.count('zero_variance_windows')
                    continue
                fv = float(v)
                sv = G[1] + 2 * G[0] * a1 + a1 * a1
                if op == 'skew':
                    mu3 = m3 - 3 * m1 * m2 + 2 * m1 ** 3
                    exp = float(mu3) / fv ** 1.5
                    s3 = G[2] + 3 * a1 * G[1] + 3 * a1 * a1 * G[0] + a1 ** 3 + 3 * a1 * sv
                    tl = 64 * eps * (s3 / fv ** 1.5 + abs(exp) * 1.5 * sv / fv + abs(exp))
                else:
                    mu4 = m4 - 4 * m3 * m1 + 6 * m2 * m1 * m1 - 3 * m1 ** 4
                    exp = float(mu4) / (fv * fv) - 3
                    s4 = G[3] + 4 * a1 * G[2] + 6 * a1 * a1 * (G[1] + sv) + 4 * a1 ** 3 * G[0] + 3 * a1 ** 4
                    tl = 64 * eps * (s4 / (fv * fv) + (abs(exp) + 3) * 2 * sv / fv + abs(exp) + 3)
                if 64 * eps * sv > 1e-3 * fv:
                    t.count('undecidable_by_rounding')
                    continue
            t.count('moving_windows')
            if dt == 'float32' and w == 1 and op == 'sum':
                tl = 0.0
            if not (abs(got - exp) <= tl) and not (math.isnan(got) and math.isnan(exp)):
                nbad += 1
                first_bad = first_bad or dict(row=r, window_start=i, got=got, expected=exp, tol=tl)
    t.check(nbad == 0, 'moving_' + op + '_value', lambda: dict(info, n_bad=nbad, first=first_bad))
    return t.result(sig=f"moving|{op}|{shape}|{axis}|{w}|{dt}|{integral}", sample=dict(case=case, derived=info))


# ---------------------------------------------------------------------------------------------------------
def run_pattern(case):
    from scared import signal_processing as sp
    t = core.Tally()
    rng = gen.rng_of(case['sub'])
    N = int(rng.integers(3, 120))
    n = int(rng.integers(1, min(N, 30)))
    integral = bool(rng.random() < 0.6)
    if integral:
        hi = int(rng.choice([3, 50, 255]))
        trace = rng.integers(0, hi + 1, N).astype(['uint8', 'int16', 'int64', 'float64'][int(rng.integers(4))])
        pattern = rng.integers(0, hi + 1, n).astype(trace.dtype)
        tv, pv = [int(v) for v in trace.tolist()], None
    else:
        trace = rng.normal(float(rng.choice([0, 30])), 5, N)
        pattern = rng.normal(float(rng.choice([0, 30])), 5, n)
    where = None
    if rng.random() < 0.6 and N - n >= 1:
        where = int(rng.integers(0, N - n + 1))
        mode = int(rng.integers(3))
        if mode == 0:
            trace[where:where + n] = pattern                 # exact occurrence
        elif mode == 1 and not integral:
            trace[where:where + n] = 2.5 * pattern + 1.0     # affine image (correlation 1)
        else:
            trace[where:where + n] = pattern[::-1]
    op = ['correlation', 'distance', 'bcdc'][int(rng.integers(3))]
    info = dict(op=op, N=N, n=n, dtype=str(trace.dtype), embedded_at=where)
    f = getattr(sp, op)
    ro_t, ro_p = trace.copy(), pattern.copy()
    ro_t.setflags(write=False)
    ro_p.setflags(write=False)
    with np.errstate(all='ignore'):
        out = np.asarray(f(ro_t, ro_p))
    if not t.check(out.shape == (N - n + 1,), 'pattern_shape', lambda: dict(info, got=out.shape)):
        return t.result()
    tv = [Fraction(float(v)) if not integral else int(v) for v in trace.tolist()]
    pv = [Fraction(float(v)) if not integral else int(v) for v in pattern.tolist()]
    eps = float(np.finfo('float64').eps)
    g2 = float(sum(abs(v) ** 2 for v in tv))             # global scale of the cumulative sums
    g1 = float(sum(abs(v) for v in tv))
    sy, syy = sum(pv), sum(v * v for v in pv)
    C = 64 * (1 + math.log2(N + 1))
    nbad, first_bad = 0, None
    for i in range(N - n + 1):
        win = tv[i:i + n]
        sx, sxx = sum(win), sum(v * v for v in win)
        sxy = sum(a * b for a, b in zip(win, pv))
        axy = float(sum(abs(a * b) for a, b in zip(win, pv))) + math.sqrt(g2 * float(syy)) * 1e-3
        got = float(out[i])
        if op == 'correlation':
            vx, vy = n * sxx - sx * sx, n * syy - sy * sy
            if vx == 0 or vy == 0:
                t.count('zero_variance_windows')
                continue
            num = n * sxy - sx * sy
            exp = float(num) / math.sqrt(float(vx) * float(vy))
            num_s = n * axy + n * g1 / n * abs(float(sy)) + abs(float(sx) * float(sy))
            kx = (n * g2 + g1 * g1) / float(vx)
            ky = (float(n * syy) + float(sy) ** 2) / float(vy)
            tl = C * eps * (num_s / math.sqrt(float(vx) * float(vy)) + abs(exp) * (kx + ky + 4))
            if C * eps * max(kx, ky) > 1e-3:
                t.count('undecidable_by_rounding')
                continue
            ok = abs(got - exp) <= tl
        elif op == 'distance':
            d2 = sxx + syy - 2 * sxy
            e2 = C * eps * (g2 + float(syy) + 2 * axy)
            exp = math.sqrt(float(d2))
            ok = abs(got * got - float(d2)) <= e2 + 4 * eps * float(d2) and got >= 0
            tl = e2
        else:
            num = Fraction(sxx + syy - 2 * sxy, n) - Fraction(sx - sy, n) ** 2
            den = Fraction(sxx + syy + 2 * sxy, n) - Fraction(sx + sy, n) ** 2
            sc = (g2 + float(syy) + 2 * axy) / n + ((g1 + abs(float(sy))) / n) ** 2
            e = C * eps * sc
            if float(den) <= 1e3 * e or float(num) < 0 or float(den) < 0:
                t.count('zero_variance_windows')
                continue
            exp = math.sqrt(float(num) / float(den))
            # compare squared ratios: num/den with absolute errors e on both
            tl = (e + float(num) * e / float(den)) / float(den) * 1.05 + 8 * eps * exp * exp
            ok = abs(got * got - exp * exp) <= tl and got >= 0
        t.count('pattern_windows')
        if not ok:
            nbad += 1
            first_bad = first_bad or dict(window_start=i, got=got, expected=exp, tol=tl)
    t.check(nbad == 0, op + '_value', lambda: dict(info, n_bad=nbad, first=first_bad))
    if where is not None and op == 'distance' and integral and nbad == 0 and np.array_equal(trace[where:where + n], pattern):
        t.check(abs(float(out[where])) <= math.sqrt(C * eps * (g2 + float(syy)) * 4) + 1e-300, 'distance_at_exact_occurrence', lambda: dict(info, got=float(out[where])))
    return t.result(sig=f"pattern|{op}|{N}|{n}|{trace.dtype}|{where}", sample=dict(case=case, derived=info))


# ---------------------------------------------------------------------------------------------------------
def run_pad(case):
    from scared import signal_processing as sp
    t = core.Tally()
    rng = gen.rng_of(case['sub'])
    ndim = int(rng.integers(1, 4))
    shape = tuple(int(v) for v in rng.integers(1, 6, ndim))
    offs = tuple(int(v) for v in rng.integers(0, 4, ndim))
    target = tuple(s + o + int(e) for s, o, e in zip(shape, offs, rng.integers(0, 4, ndim)))
    dt = ['uint8', 'int16', 'float32', 'float64', 'int64'][int(rng.integers(5))]
    a = rng.integers(1, 100, shape).astype(dt)
    if np.dtype(dt).kind == 'f':
        a = (a + rng.random(shape)).astype(dt)            # non-integral samples: a fill value must not decide the dtype of the result
    pw = [0, 0, 7, -1 if dt != 'uint8' else 3][int(rng.integers(4))]
    if np.dtype(dt).kind == 'f' and rng.random() < 0.3:
        pw = [0.5, -2.25][int(rng.integers(2))]
    use_off = rng.random() < 0.8
    kw = {}
    if use_off:
        kw['offsets'] = [list(offs), tuple(offs), np.array(offs)][int(rng.integers(3))]
    else:
        offs = tuple(0 for _ in shape)
    if pw != 0 or rng.random() < 0.3:
        kw['pad_with'] = pw
    else:
        pw = 0
    tgt = [list(target), tuple(target), np.array(target)][int(rng.integers(3))]
    info = dict(shape=shape, offsets=offs, target=target, dtype=dt, pad_with=pw)
    ro = a.copy()
    ro.setflags(write=False)
    out = sp.pad(ro, tgt, **kw)
    if not t.check(out.shape == target, 'pad_shape', lambda: dict(info, got=out.shape)):
        return t.result()
    t.check(out.dtype == np.result_type(a.dtype, np.min_scalar_type(pw)) or out.dtype == a.dtype, 'pad_dtype', lambda: dict(info, got=str(out.dtype)))
    exp = np.full(target, pw, dtype=np.result_type(a.dtype, 'float64') if np.dtype(dt).kind == 'f' else out.dtype)
    for idx in itertools.product(*[range(s) for s in shape]):
        exp[tuple(i + o for i, o in zip(idx, offs))] = a[idx]
    t.count('pad_cells', exp.size)
    t.check(bool(np.array_equal(np.asarray(out, dtype=exp.dtype), exp)), 'pad_value', lambda: dict(info, got=out.tolist(), expected=exp.tolist()))
    return t.result(sig=f"pad|{shape}|{offs}|{target}|{dt}|{pw}", sample=dict(case=case, derived=info))


def run_extract(case):
    from scared import signal_processing as sp
    t = core.Tally()
    rng = gen.rng_of(case['sub'])
    N = int(rng.integers(1, 80))
    data = rng.permutation(N * 3)[:N].astype(['int64', 'float64', 'uint16'][int(rng.integers(3))])    # distinct values: positions are identifiable
    before, after = int(rng.integers(0, 6)), int(rng.integers(0, 6))
    lo, hi = before, N - 1 - after
    if hi < lo:
        r = core.held(0, nontrivial=False)
        r['metrics'] = {}
        return r
    k = int(rng.integers(1, 8))
    idx = rng.integers(lo, hi + 1, k).astype(['int64', 'int32', 'uint8' if N < 250 else 'int64'][int(rng.integers(3))])
    mode = [sp.ExtractMode.STACK, sp.ExtractMode.CONCATENATE, sp.ExtractMode.AVERAGE][int(rng.integers(3))]
    info = dict(N=N, before=before, after=after, indexes=idx.tolist(), mode=mode.name)
    ro = data.copy()
    ro.setflags(write=False)
    out = sp.extract_around_indexes(ro, idx, before, after, mode) if rng.random() < 0.8 or mode is not sp.ExtractMode.STACK else sp.extract_around_indexes(ro, idx, before, after)
    rows = [[data[int(i) + o] for o in range(-before, after + 1)] for i in idx.tolist()]
    t.count('extract_rows', len(rows))
    if mode is sp.ExtractMode.STACK:
        exp = np.array(rows)
    elif mode is sp.ExtractMode.CONCATENATE:
        exp = np.array([v for r in rows for v in r])
    else:
        exp = np.array([math.fsum(float(r[c]) for r in rows) / len(rows) for c in range(before + after + 1)])
    if mode is sp.ExtractMode.AVERAGE:
        ok = out.shape == exp.shape and bool(np.allclose(out, exp, rtol=1e-12, atol=0))
    else:
        ok = out.shape == exp.shape and bool(np.array_equal(out, exp))
    t.check(ok, 'extract_value', lambda: dict(info, got=np.asarray(out).tolist(), expected=exp.tolist()))
    return t.result(sig=f"extract|{N}|{before}|{after}|{k}|{mode.name}", sample=dict(case=case, derived=info))


# ---------------------------------------------------------------------------------------------------------
# peaks

def peak_spec(data, dist, height, got):
    """Returns None when the returned set satisfies the three clauses, else (mechanism, detail)."""
    n = len(data)
    cand = [i for i in range(n) if data[i] >= height and (i == 0 or data[i] >= data[i - 1]) and (i == n - 1 or data[i] >= data[i + 1])]
    cs = set(cand)
    g = [int(v) for v in got]
    if len(set(g)) != len(g):
        return 'peaks_duplicate', dict(got=g)
    for p in g:
        if p not in cs:
            return 'peak_is_not_a_candidate', dict(got=g, not_candidate=p, candidates=cand)
    for a, b in itertools.combinations(sorted(g), 2):
        if abs(a - b) < dist:
            return 'peaks_too_close', dict(got=g, pair=[a, b])
    gs = set(g)
    dropped = [c for c in cand if c not in gs]
    for c in dropped:
        if not any(o != c and abs(o - c) < dist and data[o] >= data[c] for o in cand):
            return 'isolated_maximum_dropped', dict(got=g, dropped=c, value=float(data[c]), candidates=cand)
    return None, len(dropped)


def run_peaks_exh(case):
    from scared import signal_processing as sp
    t = core.Tally()
    L, first = case['L'], case['first']
    t.count('peak_candidates_dropped', 0)
    for tail in itertools.product(range(4), repeat=L - (0 if first is None else 1)):
        sig = tail if first is None else (first,) + tail
        for dt in ('int64', 'float64', 'uint8'):
            data = np.array(sig, dtype=dt)
            ro = data.copy()
            ro.setflags(write=False)
            for d in range(9):
                for h in (-np.inf, 1, 2.5):
                    got = sp.find_peaks(ro, d, h)
                    t.count('peak_calls')
                    t.count('peak_calls_exhaustive')
                    res = peak_spec(sig, d, h, got)
                    if res[0] is not None:
                        t.check(False, res[0], dict(res[1], data=list(sig), min_peak_distance=d, min_peak_height=float(h), dtype=dt))
                    else:
                        t.checks += 1
                        t.count('peak_candidates_dropped', res[1])
    return t.result(sig=f"peaks_exh|{L}|{first}", sample=dict(case=case, calls=t.counters.get('peak_calls')))


def _random_signal(rng):
    N = int(rng.integers(1, 400)) if rng.random() < 0.5 else int(rng.integers(1, 30))
    style = int(rng.integers(5))
    if style == 0:
        x = rng.integers(0, 4, N)                                  # many ties / plateaus
    elif style == 1:
        x = np.repeat(rng.integers(0, 10, N), rng.integers(1, 5, N))[:N]     # plateaus
    elif style == 2:
        x = rng.integers(0, 1000, N)
    elif style == 3:
        x = np.zeros(N, dtype=int)
        k = int(rng.integers(1, 8))
        x[rng.integers(0, N, k)] = rng.integers(1, 10, k)         # isolated spikes, possibly at both ends
        if rng.random() < 0.5:
            x[0] = int(rng.integers(0, 10))
        if rng.random() < 0.7:
            x[-1] = int(rng.integers(0, 12))                      # arbitrary last sample
    else:
        x = np.round(rng.normal(0, 3, N) * 2) / 2
    return x


def run_peaks(case):
    from scared import signal_processing as sp
    t = core.Tally()
    rng = gen.rng_of(case['sub'])
    t.count('peak_candidates_dropped', 0)
    for _ in range(12):
        x = _random_signal(rng)
        dt = ['int64', 'float64', 'int32', 'float32', 'uint8', 'uint16', 'int8', 'uint32'][int(rng.integers(8))]
        if dt in ('uint8', 'uint16', 'uint32'):
            x = np.abs(x) % 256
        if dt == 'int8':
            x = np.clip(np.asarray(x) * 12, -128, 127)          # steps larger than the positive range of the dtype
        data = np.asarray(x).astype(dt)
        N = len(data)
        d = int(rng.choice([0, 1, 2, 3, 5, 10, 50, N, N + 5]))
        vals = np.unique(data)
        h = [-np.inf, float(vals[int(rng.integers(len(vals)))]), float(vals.mean()), int(vals.max()), float(vals.max()) + 0.5][int(rng.integers(5))]
        ro = data.copy()
        ro.setflags(write=False)
        got = sp.find_peaks(ro, d, h)
        t.count('peak_calls')
        res = peak_spec([float(v) for v in data.tolist()], d, h, got)
        if res[0] is not None:
            t.check(False, res[0], dict(res[1], data=data.tolist()[:80], N=N, min_peak_distance=d, min_peak_height=float(h), dtype=dt))
        else:
            t.checks += 1
            t.count('peak_candidates_dropped', res[1])
            # the highest candidate (first of the global maxima plateau or any of them) is kept: at least one global maximum survives
            if len(data) and np.max(data) >= h:
                mx = np.max(data)
                t.check(any(data[int(p)] == mx for p in got), 'global_maximum_lost', dict(data=data.tolist()[:80], got=[int(v) for v in got], min_peak_distance=d))
    return t.result(sig=f"peaks|{case['sub']}", sample=dict(case=case))


# ---------------------------------------------------------------------------------------------------------
def width_oracle(data, positive, threshold, min_width, max_width, delta):
    n = len(data)
    beyond = [(v > threshold) if positive else (v < threshold) for v in data]
    runs = []
    i = 0
    while i < n:
        if beyond[i]:
            j = i
            while j < n and beyond[j]:
                j += 1
            if i > 0 and j < n:                       # bracketed on both sides
                w = j - i
                if max_width is not None:
                    ok = min_width <= w <= max_width
                elif delta is not None:
                    ok = min_width - delta <= w <= min_width + delta
                else:
                    ok = w >= min_width
                if ok:
                    runs.append([i, j])
            i = j
        else:
            i += 1
    return runs


def _width_call(t, sp, data, positive, thr, mn, mx, dl, info):
    import warnings
    ro = np.asarray(data).copy()
    ro.setflags(write=False)
    direction = sp.Direction.POSITIVE if positive else sp.Direction.NEGATIVE
    kw = {}
    if mx is not None:
        kw['max_width'] = mx
    if dl is not None:
        kw['delta'] = dl
    with warnings.catch_warnings():
        warnings.simplefilter('ignore')
        got = sp.find_width(ro, direction, thr, mn, **kw)
    exp = width_oracle([float(v) for v in ro.tolist()], positive, thr, mn, mx, dl)
    t.count('width_calls')
    got_l = np.asarray(got).tolist()
    ok = np.asarray(got).ndim == 2 and np.asarray(got).shape[1] == 2 and got_l == exp if exp else (np.asarray(got).size == 0)
    t.check(ok, 'find_width_runs', lambda: dict(info, data=np.asarray(data).tolist()[:80], positive=positive, threshold=thr, min_width=mn, max_width=mx, delta=dl, got=got_l, expected=exp))


def run_width_exh(case):
    from scared import signal_processing as sp
    t = core.Tally()
    L = case['L']
    for sig in itertools.product((0, 1, 2), repeat=L):
        data = np.array(sig, dtype='int64' if sum(sig) % 2 else 'float64')
        for positive in (True, False):
            for (mn, mx, dl) in ((1, None, None), (2, None, None), (1, 2, None), (2, None, 1)):
                _width_call(t, sp, data, positive, 1, mn, mx, dl, dict(L=L))
    return t.result(sig=f"width_exh|{L}", sample=dict(case=case, calls=t.counters.get('width_calls')))


def run_width(case):
    from scared import signal_processing as sp
    t = core.Tally()
    rng = gen.rng_of(case['sub'])
    for _ in range(10):
        # run-structured signal: alternating low / high segments of random lengths, values on / around the threshold
        thr = [0, 5, 2.5, -1][int(rng.integers(4))]
        segs = []
        lvl = int(rng.integers(2))
        for _s in range(int(rng.integers(1, 12))):
            ln = int(rng.integers(1, 9))
            if lvl:
                segs.append(thr + rng.integers(1, 4, ln))
            else:
                segs.append(thr - rng.integers(0, 3, ln))         # includes samples exactly on the threshold
            lvl = 1 - lvl if rng.random() < 0.85 else lvl
        x = np.concatenate(segs)
        if rng.random() < 0.5:
            x = 2 * thr - x
        data = x.astype('float64') if rng.random() < 0.5 or thr != int(thr) else x.astype('int64')
        positive = bool(rng.integers(2))
        mn = int(rng.integers(1, 7))
        mode = int(rng.integers(4))
        mx = dl = None
        if mode == 1:
            mx = int(rng.integers(1, 10))
        elif mode == 2 and mn >= 2:
            dl = int(rng.integers(1, mn))
        elif mode == 3:
            mx = int(rng.integers(1, 10))
            dl = int(rng.integers(1, 4))
        _width_call(t, sp, data, positive, thr if rng.random() < 0.5 else float(thr), mn, mx, dl, dict(N=len(data)))
    return t.result(sig=f"width|{case['sub']}", sample=dict(case=case))


# ---------------------------------------------------------------------------------------------------------
def run_boundscheck(case):
    """The serial numba core under NUMBA_BOUNDSCHECK=1 (an out-of-range index raises IndexError instead of reading/writing silently)."""
    env = dict(os.environ)
    env['NUMBA_BOUNDSCHECK'] = '1'
    env['PYTHONPATH'] = f'{REPO_DIR}:{VERIF_DIR}'
    try:
        p = subprocess.run([sys.executable, '-m', 'vf.props.c19', '--boundscheck', str(case['sub']), str(case['n'])], cwd=VERIF_DIR, env=env,
                           capture_output=True, text=True, timeout=600)
    except subprocess.TimeoutExpired:
        return core.inconclusive('boundscheck child timed out')
    line = [ln for ln in p.stdout.splitlines() if ln.startswith('{')]
    if p.returncode != 0 or not line:
        if p.returncode < 0:
            return core.violated(f'crash:rc={-p.returncode}', dict(stderr=p.stderr[-800:]))
        return core.inconclusive('boundscheck child failed: ' + p.stderr[-600:])
    o = json.loads(line[-1])
    t = core.Tally()
    t.count('boundscheck_peak_calls', o['calls'])
    t.checks = o['calls']
    if o['index_errors']:
        t.check(False, 'find_peaks_index_out_of_bounds', o['first'])
    if o['spec']:
        t.check(False, o['spec'][0], o['spec'][1])
    return t.result(sig='boundscheck', sample=dict(case=case, calls=o['calls']))


def _boundscheck_child(sub, n):
    from scared import signal_processing as sp
    import numba
    assert numba.config.BOUNDSCHECK, 'NUMBA_BOUNDSCHECK not active'
    rng = gen.rng_of(sub)
    calls, errs, first, spec = 0, 0, None, None
    for _ in range(n):
        x = _random_signal(rng)
        data = np.asarray(x).astype(['int64', 'float64'][int(rng.integers(2))])
        d = int(rng.choice([0, 1, 2, 3, 5, 10, 50, len(data)]))
        h = [-np.inf, float(np.median(data)), float(data.max())][int(rng.integers(3))]
        try:
            got = sp.find_peaks(data, d, h)
            calls += 1
            res = peak_spec([float(v) for v in data.tolist()], d, h, got)
            if res[0] is not None and spec is None:
                spec = [res[0], dict(res[1], data=data.tolist()[:80], min_peak_distance=d, min_peak_height=float(h))]
        except IndexError as e:
            errs += 1
            first = first or dict(data=data.tolist()[:80], min_peak_distance=d, min_peak_height=float(h), error=repr(e))
    print(json.dumps(dict(calls=calls, index_errors=errs, first=first, spec=spec)))


def run_extract_many(case):
    """One extraction around thousands of indexes (more than any plausible internal block), on a signal whose level drifts so that
    the slices differ from block to block."""
    from scared import signal_processing as sp
    t = core.Tally()
    rng = gen.rng_of(case['sub'])
    k = int(case['k'])
    before, after = int(rng.integers(0, 5)), int(rng.integers(0, 5))
    N = int(rng.integers(3 * k, 5 * k))
    data = (np.arange(N) * float(rng.choice([0.01, 0.5])) + rng.integers(0, 50, N)).astype(['float64', 'float32', 'int64'][int(rng.integers(3))])
    idx = np.sort(rng.choice(np.arange(before, N - after), k, replace=False)) if rng.random() < 0.7 else rng.integers(before, N - after, k)
    ro = data.copy()
    ro.setflags(write=False)
    rows = [[data[int(i) + o] for o in range(-before, after + 1)] for i in idx.tolist()]
    for mode in (sp.ExtractMode.AVERAGE, sp.ExtractMode.STACK, sp.ExtractMode.CONCATENATE):
        info = dict(N=N, before=before, after=after, indexes=k, mode=mode.name, dtype=str(data.dtype))
        out = np.asarray(sp.extract_around_indexes(ro, idx, before, after, mode))
        t.count('extract_rows', len(rows))
        t.count('extract_many_calls')
        if mode is sp.ExtractMode.STACK:
            exp = np.array(rows)
            ok = out.shape == exp.shape and bool(np.array_equal(out, exp))
        elif mode is sp.ExtractMode.CONCATENATE:
            exp = np.array([v for r in rows for v in r])
            ok = out.shape == exp.shape and bool(np.array_equal(out, exp))
        else:
            exp = np.array([math.fsum(float(r[c]) for r in rows) / len(rows) for c in range(before + after + 1)])
            # the mean may be accumulated row after row in the signal's own floating type: recursive-summation bound k * eps * max|x|
            rt = max(1e-11, k * float(np.finfo(data.dtype).eps)) if data.dtype.kind == 'f' else 1e-11
            ok = out.shape == exp.shape and bool(np.all(np.abs(np.asarray(out, dtype=float) - exp) <= rt * float(np.max(np.abs(data)))))
        t.check(ok, 'extract_value', lambda: dict(info, got=np.asarray(out).ravel().tolist()[:6], expected=exp.ravel().tolist()[:6]))
    return t.result(sig=f"extract_many|{k}|{before}|{after}|{data.dtype}", sample=dict(case=case))


def run_history(case):
    """A sequence of calls on a few buffers that the caller refills in place between calls (acquisition buffers): each result must be
    the one a first call on a fresh array with the same content gives, and results kept by the caller must not change afterwards."""
    from scared import signal_processing as sp
    t = core.Tally()
    rng = gen.rng_of(case['sub'])
    L = int(rng.integers(8, 60))
    bufs = [rng.integers(0, 40, L).astype('float64'), rng.integers(0, 40, (3, L)).astype('float64'), rng.integers(0, 40, L).astype('int32')]
    pattern = rng.integers(0, 40, int(rng.integers(2, 6))).astype('float64')
    ops = ['sum', 'mean'] * 3 + ['var', 'std', 'skew', 'kurtosis', 'correlation', 'distance', 'bcdc', 'find_peaks', 'find_width']
    kept = []
    pending = []
    log = []
    last = None
    for c in range(int(rng.integers(6, 16))):
        b = int(rng.integers(len(bufs))) if last is None or rng.random() < 0.35 else last        # mostly the same buffer again
        buf = bufs[b]
        if rng.random() < 0.7:
            how = int(rng.integers(3))
            if how == 0:
                buf[...] = rng.integers(0, 40, buf.shape)
            elif how == 1:
                buf[..., int(rng.integers(L))] += 17
            else:
                buf *= 2
        op = ops[int(rng.integers(len(ops)))]
        w = int(rng.integers(2, 7)) if last is None or rng.random() < 0.5 else log[-1][2]
        if op in ('sum', 'mean', 'var', 'std', 'skew', 'kurtosis'):
            call = lambda a: np.asarray(getattr(sp, 'moving_' + op)(a, w, -1))
        elif op in ('correlation', 'distance', 'bcdc'):
            if buf.ndim != 1:
                continue
            call = lambda a: np.asarray(getattr(sp, op)(a, pattern))
        elif op == 'find_peaks':
            if buf.ndim != 1:
                continue
            call = lambda a: np.asarray(sp.find_peaks(a, w, 5))
        else:
            if buf.ndim != 1:
                continue
            call = lambda a: np.asarray(sp.find_width(a, sp.Direction.POSITIVE, 20, 1))
        with np.errstate(all='ignore'):
            try:
                got = call(buf)
            except Exception as e:
                got = ('raised', type(e).__name__)
        log.append((op, b, w))
        last = b
        t.count('history_calls')
        for (c0, op0, obj, snap) in kept:
            t.check(np.array_equal(obj, snap, equal_nan=True), 'earlier_result_changed_by_a_later_call', lambda: dict(case=case, returned_by_call=c0, op=op0, after_call=c, history=log[-5:]))
        # the reference call on a fresh array is made after the whole sequence, so that it does not take part in the history
        pending.append((c, op, b, w, call, buf.copy(), got if isinstance(got, tuple) else got.copy(), list(log[-5:])))
        if not isinstance(got, tuple) and got.dtype.kind in 'fiu':
            kept.append((c, op, got, got.copy()))
            kept = kept[-6:]
    for (c, op, b, w, call, content, got, hist) in pending:
        with np.errstate(all='ignore'):
            try:
                exp = call(content.copy())
            except Exception as e:
                exp = ('raised', type(e).__name__)
        if isinstance(got, tuple) or isinstance(exp, tuple):
            same = isinstance(got, tuple) and isinstance(exp, tuple) and got == exp
        else:
            same = got.shape == exp.shape and bool(np.array_equal(got, exp, equal_nan=True))
        t.count('history_results_vs_fresh_call')
        t.check(same, 'result_depends_on_earlier_calls', lambda: dict(case=case, call=c, op=op, buffer=b, window=w, history=hist,
                                                                      got=None if isinstance(got, tuple) else got.ravel().tolist()[:5], fresh=None if isinstance(exp, tuple) else exp.ravel().tolist()[:5]))
    return t.result(sig=f"history|{case['sub']}", sample=dict(case=case, calls=log[-8:]))


def run_case(case):
    if case['gen'] in ('extract_many', 'history'):
        r = (run_extract_many if case['gen'] == 'extract_many' else run_history)(case)
        for c in REQUIRED_COUNTERS:
            r.setdefault('counters', {}).setdefault(c, 0)
        return r
    r = dict(moving=run_moving, pattern=run_pattern, pad=run_pad, extract=run_extract, peaks_exh=run_peaks_exh, peaks=run_peaks,
             width_exh=run_width_exh, width=run_width, peaks_boundscheck=run_boundscheck)[case['gen']](case)
    for c in REQUIRED_COUNTERS:
        r.setdefault('counters', {}).setdefault(c, 0)
    return r


if __name__ == '__main__':
    if sys.argv[1] == '--boundscheck':
        _boundscheck_child(int(sys.argv[2]), int(sys.argv[3]))
