"""C02 - Analysis.run(Container) equals the one-shot statistic on the whole trace set.

Monitors (all at positions the public API already calls, on instances the harness created):
  * the selection function is a spy: it receives the batch's own `tid` metadata and logs which trace ids each
    batch contained (unique ids => the history is unambiguous);
  * `update` of the analysis instance is wrapped: every (traces, data) pair the analysis feeds to its
    distinguisher is recorded at the call boundary.
Trace specification over the event log: ids seen == 0..N-1 exactly once and in order over the whole run
sequence; data rows == model(sf(metadata[ids])); sample rows == chain(samples[ids][:, frame]) bit-for-bit;
every batch <= the configured size and all but the last of a run equal to it (integer rule).
Oracle for the result: the standalone distinguisher of the same family applied ONCE to the whole transformed
trace set (exact regime: bit-for-bit); `scores` == discriminant(results) re-evaluated by the harness.
"""
import numpy as np

from .. import core, gen, subjects, tol
from ..monitors import CONTROL

ID = 'C02'
LEVEL = 'exploration'
WORKERS = {'quick': 12, 'thorough': 14}
BUDGET_S = {'quick': 100, 'thorough': 600}
NUMBA_THREADS = 2
REQUIRED_COUNTERS = ['runs', 'batches_logged', 'ids_logged', 'batch_rows_compared', 'results_vs_one_shot', 'scores_vs_discriminant', 'multi_run_sequences',
                     'tail_batch_of_one', 'smaller_than_one_batch', 'batch_rule:int', 'batch_rule:float', 'batch_rule:table']
CLASSES = ['CPAAttack', 'CPAReverse', 'DPAAttack', 'DPAReverse', 'ANOVAAttack', 'ANOVAReverse', 'NICVAttack', 'NICVReverse', 'SNRAttack', 'SNRReverse',
           'MIAAttack', 'MIAReverse', 'TemplateBuild']
CHEAP = ['CPAAttack', 'CPAReverse', 'DPAAttack', 'DPAReverse']
RULE = ('a case = (analysis class in 12 + template build, N in 1..130, raw trace length, frame form (None | Ellipsis | slice with step | unordered / '
        'repeated index list | range | ndarray), chain of 0-3 row-wise non-commuting / length-changing preprocesses, batch rule (int incl. 1, N-1, N, N+1, '
        'divisors, non-divisors | MB float | table), 1-3 successive run() calls on consecutive containers, precision); non-trivial = the batch log and the '
        'results were compared; distinct by all of these')
ASSUMPTIONS = ['exact regime: transformed samples and intermediate values are small integers, so every accumulated sum is exact and the batched run must be '
               'bit-identical to the one-shot computation', 'numpy fancy indexing is the reference for samples[:, frame]',
               'the preprocess objects themselves are applied by the oracle to the whole set (they are row-wise; C18 ties them to their definitions)',
               'class sets explicit (or fixed by the first batch by construction), MIA with explicit bin edges, as the property says']


def setup():
    if not CONTROL.install():
        raise core.Inconclusive('kernel-choice hook not available')


def cases(tier, seed):
    out = []
    k = 0
    for klass in CLASSES:
        for rule in ('int', 'int', 'float', 'table'):
            out.append(dict(gen='run', klass=klass, rule=rule, sub=core.subseed('C02', seed, k), must=True))
            k += 1
    for j, klass in enumerate(['CPAReverse', 'CPAAttack', 'DPAReverse', 'SNRReverse']):
        out.append(dict(gen='run', klass=klass, rule='int', frame_kind=7, sub=core.subseed('C02f', seed, j), must=True))
    for j, klass in enumerate(('SNRReverse', 'ANOVAReverse', 'NICVReverse', 'MIAReverse')):
        out.append(dict(gen='run', klass=klass, rule='int', ident=True, sub=core.subseed('C02ident', seed, j), must=True))
    for j, klass in enumerate(('CPAReverse', 'DPAAttack', 'SNRReverse', 'CPAAttack')):
        out.append(dict(gen='run', klass=klass, rule='int', peek=True, sub=core.subseed('C02peek', seed, j), must=True))
    rs = np.random.default_rng(core.subseed('C02r', seed))
    n_rand = 500 if tier == 'quick' else 12000
    w = np.array([5 if c in CHEAP else 1 for c in CLASSES], dtype=float)
    w /= w.sum()
    for j in range(n_rand):
        out.append(dict(gen='run', klass=CLASSES[int(rs.choice(len(CLASSES), p=w))], rule=['int', 'int', 'int', 'float', 'table'][int(rs.integers(5))], sub=int(rs.integers(2 ** 62))))
    return out


# ---------------------------------------------------------------------------------------------------------
def _frame(rng, T, kind=None):
    k = int(rng.integers(8)) if kind is None else kind
    if k == 7:
        # an index list whose end points span exactly its length although it is neither sorted nor free of repetitions
        if T < 3:
            k = 3
        else:
            m = int(rng.integers(3, T + 1))
            a0 = int(rng.integers(0, T - m + 1))
            mid = rng.permutation(np.arange(a0 + 1, a0 + m - 1)).tolist()
            if len(mid) >= 2 and rng.random() < 0.3:
                mid[0] = mid[-1]
            ix = [a0] + mid + [a0 + m - 1]
            if len(mid) == 1:
                ix = [a0 + m - 1, a0 + 1, a0] if rng.random() < 0.5 else [a0, a0 + m - 1, a0 + 1][:3]
            return (ix if rng.random() < 0.5 else np.array(ix)), ix
    if k == 0:
        return None, list(range(T))
    if k == 1:
        return ..., list(range(T))
    if k == 2:
        a = int(rng.integers(0, T))
        b = int(rng.integers(a + 1, T + 1))
        s = int(rng.integers(1, 4))
        return slice(a, b, s), list(range(a, b, s))
    if k == 3:
        ix = rng.integers(0, T, int(rng.integers(1, T + 2))).tolist()        # unordered, repeated
        return ix, ix
    if k == 4:
        a = int(rng.integers(0, T))
        b = int(rng.integers(a + 1, T + 1))
        return range(a, b), list(range(a, b))
    if k == 5:
        ix = rng.permutation(T)[:int(rng.integers(1, T + 1))]
        return np.array(ix), ix.tolist()
    return slice(None, int(rng.integers(1, T + 1))), None


def _chain(rng, L):
    """0-3 row-wise preprocesses whose order matters; returns (list of callables, description)."""
    import scared
    pp = scared.preprocesses
    ho = pp.high_order
    out, desc = [], []
    n = int(rng.choice([0, 1, 1, 2, 2, 3]))
    cur = L
    for _ in range(n):
        k = int(rng.integers(8))
        if k == 0:
            out.append(pp.square)
            desc.append('square')
        elif k == 1:
            m = rng.integers(-2, 3, cur).astype('float32')
            out.append(pp.CenterOn(mean=m))
            desc.append('CenterOn(fixed)')
        elif k == 2 and cur <= 8:
            out.append(ho.Product())
            desc.append('Product()')
            cur = cur * (cur + 1) // 2
        elif k == 3 and cur >= 2:
            d = int(rng.integers(1, 3))
            out.append(ho.Difference(distance=d))
            desc.append(f'Difference(distance={d})')
            cur = sum(min(i + d, cur - 1) - i + 1 for i in range(cur))
        elif k == 4 and cur >= 2:
            h = cur // 2
            out.append(ho.AbsoluteDifference(frame_1=slice(0, h), frame_2=slice(cur - h, cur), mode='same'))
            desc.append('AbsoluteDifference(same)')
            cur = h
        elif k == 5:
            @scared.preprocess
            def ramp(traces):
                # position dependent: makes "frame after preprocess" or a reordered chain observable
                return traces * 2 + np.arange(traces.shape[1], dtype=traces.dtype)[None, :] % 3
            out.append(ramp)
            desc.append('ramp')
        elif k == 6 and cur >= 2:
            @scared.preprocess
            def drop_first(traces):
                return traces[:, 1:] - traces[:, :1]
            out.append(drop_first)
            desc.append('drop_first')
            cur -= 1
        else:
            out.append(pp.ToPower(power=2))
            desc.append('ToPower(2)')
    return out, desc


def _floor_msd(x):
    import math
    if x < 1:
        return 0
    d = int(math.log10(x))
    return int(x // 10 ** d) * 10 ** d


def run_case(case):
    import scared
    t = core.Tally()
    for c in REQUIRED_COUNTERS:
        t.count(c, 0)
    rng = gen.rng_of(case['sub'])
    klass, rule = case['klass'], case['rule']
    attack = klass.endswith('Attack')
    N = int(rng.choice([1, 2, 3, 5, 7, 12, 20, 33, 64, 100, 130]))
    T = int(rng.integers(1, 9)) if case.get('frame_kind') != 7 else int(rng.integers(4, 10))
    sdt = ['uint8', 'int8', 'int16', 'float32', 'float64', 'int32'][int(rng.integers(6))]
    if klass.startswith(('CPA', 'DPA')) and rng.random() < 0.1:
        sdt = 'float16'
    samples = rng.integers(0, 4, (N, T)).astype(sdt)
    samples[:, 0] = np.arange(N) % 4
    if T >= 3 and rng.random() < 0.3:
        samples[:, T - 1] = 2          # a constant sample: the statistic is undefined there (NaN in the results), whatever the discriminant does with it
    mia_fine = klass.startswith('MIA') and rng.random() < 0.4
    if mia_fine:
        # histogram counts are exact for any real samples: double-precision samples a hair on either side of the bin edges k + 0.5
        # (a conversion of the batch to single precision on the way to the distinguisher moves them across the edge)
        sdt = 'float64'
        samples = samples.astype('float64') + 0.5 + rng.choice([-1e-9, 1e-9, 0.25], (N, T))
    W = 1 if klass == 'TemplateBuild' else int(rng.integers(1, 4))
    v = rng.integers(0, 256, (N, W)).astype('uint8')
    ident = (not klass.endswith('Attack')) and klass[:3] in ('ANO', 'NIC', 'SNR', 'MIA') and bool(case.get('ident') or rng.random() < 0.15)
    if ident:
        # the intermediate value is a metadata field itself (32-bit class labels): the selection function hands the batch's own array over
        v = rng.integers(0, 12, (N, W)).astype('int32')
        t.count('selection_function_returns_the_metadata_itself')
    tid = np.arange(N, dtype='int64').reshape(N, 1)
    ths = scared.traces.read_ths_from_ram(samples=samples, v=v, tid=tid)
    ths_snapshot = (samples.tobytes(), v.tobytes(), tid.tobytes())
    frame, fidx = _frame(rng, T, kind=case.get('frame_kind'))
    Xf = samples[:, frame if frame is not None else ...]
    chain, cdesc = _chain(rng, Xf.shape[1])
    if mia_fine:
        chain, cdesc = [], []
    G = int(rng.integers(2, 6))
    bit = int(rng.integers(0, 8))
    dpa = klass.startswith('DPA')
    part = klass[:3] in ('ANO', 'NIC', 'SNR', 'MIA') or klass == 'TemplateBuild'
    log_ids, log_updates = [], []
    sf_layout = int(rng.integers(2))      # the selection function may hand over Fortran-ordered intermediate values

    wide = klass.startswith('CPA') and rng.random() < 0.3       # 16-bit intermediate values handed to the Value model unchanged
    wide_dt = ['uint16', 'int32', 'int64'][int(rng.integers(3))]

    def sf_formula(vv, guesses=None):
        if ident:
            return vv
        if wide:
            w16 = (vv.astype('int64') * 251 + 3) % 65536
            if guesses is None:
                return w16.astype(wide_dt)
            return np.stack([(w16 ^ (int(g) * 4099)) % 65536 for g in guesses], axis=1).astype(wide_dt)
        if guesses is None:
            return (vv ^ 0x3c).astype('uint8')
        out = np.empty((vv.shape[0], len(guesses), vv.shape[1]), dtype='uint8')
        for i, g in enumerate(guesses):
            out[:, i, :] = vv ^ np.uint8((int(g) * 37) % 256)
        return np.asfortranarray(out) if sf_layout == 1 else out

    if attack:
        @scared.attack_selection_function(guesses=range(G))
        def sf(v, tid, guesses):
            log_ids.append(np.asarray(tid).ravel().tolist())
            return sf_formula(np.asarray(v), guesses)
    else:
        @scared.reverse_selection_function
        def sf(v, tid):
            log_ids.append(np.asarray(tid).ravel().tolist())
            return sf_formula(np.asarray(v))

    model = scared.Monobit(bit) if dpa else (scared.HammingWeight() if klass != 'TemplateBuild' or rng.random() < 0.5 else scared.Value())
    if ident:
        model = scared.Value()
    if wide:
        model = scared.Value()
        t.count('wide_intermediate_values')
    parts = None
    if part:
        if isinstance(model, scared.HammingWeight):
            parts = [list(range(9)), [8, 0, 3, 5, 1, 2, 4, 6, 7], list(range(12)), list(range(1, 7)), [2, 3, 4, 5]][int(rng.integers(5))]     # the last two leave values out
        else:
            parts = list(range(256))
        if ident:
            parts = [[1, 2, 3, 4, 7, 9, 11], [11, 0, 5, 6, 2], list(range(12))][int(rng.integers(3))]       # class position differs from class value, some values left out
    # transformed whole set (oracle side): frame first, then the chain in list order
    X = Xf
    for p in chain:
        X = p(X)
    X = np.asarray(X)
    # the oracle side always works on plain C-ordered copies (the layout handed over by the selection function is part of the subject's input)
    data_all = np.ascontiguousarray(np.asarray(model(np.ascontiguousarray(sf_formula(v, np.arange(G, dtype='uint8')) if attack else sf_formula(v)))))
    # exact regime: choose a precision in which every accumulated sum is exact
    amax = float(np.max(np.abs(X))) if X.size else 0.0
    ymax = float(np.max(data_all)) if data_all.size else 1.0
    need = N * max(amax * amax, amax * ymax, ymax * ymax, 1.0)
    if klass == 'TemplateBuild':
        need = N * max(amax * amax, 1.0)
    if need >= 2 ** 52:
        # not an execution: the generator refuses a workload it could not judge exactly (counted, neither held nor violated)
        r = core.held(0, nontrivial=False, counters=dict(t.counters, generator_rejected_outside_exact_regime=1))
        r['metrics'] = {}
        return r
    precision = 'float64' if need >= 2 ** 24 or rng.random() < 0.5 else 'float32'
    kw = dict(selection_function=sf, model=model, precision=precision)
    disc = None
    if attack:
        disc = [scared.maxabs, scared.nanmax, scared.abssum, scared.opposite_min, scared.nansum][int(rng.integers(5))]
        kw['discriminant'] = disc
    if part:
        kw['partitions'] = parts
    conv = None
    if attack and rng.random() < 0.3:
        # asking for convergence traces changes the batching (C08) but must not change what the run computes
        conv = int(rng.choice([1, 2, 3, 5, 10, 25, 50, max(1, N // 2), N, N + 7]))
        kw['convergence_step'] = conv
    edges = None
    if klass.startswith('MIA'):
        lo, hi = float(np.min(X)) if X.size else 0.0, float(np.max(X)) if X.size else 1.0
        nb = int(rng.integers(2, 9))
        edges = np.linspace(np.floor(lo) - 0.5, np.floor(lo) - 0.5 + nb * max(1.0, np.ceil((hi - lo + 1) / nb)), nb + 1)
        if mia_fine:
            edges = np.arange(-0.5, 5.0, 1.0)
            t.count('mia_samples_around_edges')
        kw['bin_edges'] = edges
        if rng.random() < 0.4:
            precision = ['uint32', 'uint16'][int(rng.integers(2))] if N < 60000 else 'uint32'       # integer counters: a documented option of MIA
            kw['precision'] = precision
    if klass == 'TemplateBuild':
        from scared.analysis.template import _TemplateBuildAnalysis
        a = _TemplateBuildAnalysis(**kw)
    else:
        a = getattr(scared, klass)(**kw)
    orig_update = a.update

    def spy_update(traces, data):
        log_updates.append((np.array(traces, copy=True), np.array(data, copy=True)))
        return orig_update(traces=traces, data=data)
    a.update = spy_update

    # batch rule
    rawlen = Xf.shape[1]
    if rule == 'int':
        cand = sorted(set([1, 2, max(1, N - 1), N, N + 1, max(1, N // 2), max(1, N // 3), 7, 10]))
        bs = int(cand[int(rng.integers(len(cand)))])
        setting, expected_bs = bs, bs
    elif rule == 'float':
        per = max(1, rawlen) * samples.dtype.itemsize
        target = int(rng.choice([10, 20, 30, 50, 200]))
        setting = float(target * per / 2 ** 20 * 1.0001)
        expected_bs = max(_floor_msd(int(setting * 2 ** 20) / per), 10)
    else:
        th = int(rng.integers(1, 40))
        b1, b2 = int(rng.integers(1, 30)), int(rng.integers(1, 30))
        setting = [(0, b1), (th, b2)]
        expected_bs = b2 if max(X.shape[1], rawlen) >= th else b1
    t.count('batch_rule:' + rule)
    # run sequence: 1-3 consecutive containers
    nruns = int(rng.choice([1, 1, 2, 3]))
    if nruns > N:
        nruns = 1
    cuts = [0] + sorted(rng.choice(np.arange(1, N), size=nruns - 1, replace=False).tolist()) + [N] if nruns > 1 else [0, N]
    info = dict(klass=klass, N=N, T=T, sample_dtype=sdt, words=W, frame=repr(frame)[:60], chain=cdesc, rule=rule, setting=repr(setting)[:60], expected_batch=expected_bs,
                runs=cuts, precision=precision, convergence_step=conv, guesses=G if attack else None, transformed_length=int(X.shape[1]))
    forced = klass[:3] in ('ANO', 'NIC', 'SNR') or klass == 'TemplateBuild'
    if forced:
        CONTROL.force(a, [int(x) for x in rng.integers(0, 2, 300)])
    before = scared.Container._BATCH_SIZE
    run_marks = []
    try:
        scared.set_batch_size(setting)
        for r in range(nruns):
            sub = ths[cuts[r]:cuts[r + 1]]
            if rng.random() < 0.2:
                # the frame is a public attribute: built with another frame, set to the intended one before use
                decoy, _ = _frame(rng, T)
                cont = scared.Container(sub, frame=decoy, preprocesses=list(chain))
                cont.frame = frame if frame is not None else ...
                t.count('frame_reassigned_before_run')
            else:
                if not chain and rng.random() < 0.6:
                    cont = scared.Container(sub, frame=frame) if frame is not None else scared.Container(sub)      # default (shared) preprocesses argument
                else:
                    cont = scared.Container(sub, frame=frame, preprocesses=list(chain)) if frame is not None or rng.random() < 0.5 else scared.Container(sub, preprocesses=list(chain))
            pk = int(rng.integers(8)) if not case.get('peek') else int(rng.integers(4))
            if pk < 4 and len(sub) >= 1:
                # the user looks at the container before handing it to the analysis (first batch, a loop left early, indexing, printing):
                # the run still processes every trace once
                if pk == 0:
                    b0 = next(iter(cont.batches()))
                    np.asarray(b0.samples[:])
                elif pk == 1:
                    for i_, b_ in enumerate(cont.batches()):
                        np.asarray(b_.samples[:])
                        if i_ >= 1:
                            break
                elif pk == 2:
                    bb_ = cont.batches(batch_size=expected_bs if rule != 'float' else None)
                    len(bb_), np.asarray(bb_[0].samples[:]), next(iter(bb_))
                else:
                    str(cont), cont.trace_size, cont.batch_size, len(cont.batches())
                t.count('container_looked_at_before_run')
            start = len(log_updates)
            a.run(cont)
            run_marks.append((start, len(log_updates)))
            t.count('runs')
            if attack:
                # scores are the discriminant of the results, refreshed by every run
                t.count('scores_vs_discriminant')
                exp_scores = disc(np.array(a.results))
                t.check(tol.same(a.scores, exp_scores), 'scores_are_not_discriminant_of_results', lambda: dict(info, after_run=r, diff=tol.first_diff(a.scores, exp_scores)))
    finally:
        scared.set_batch_size(None)
    t.check(scared.Container._BATCH_SIZE == before, 'batch_size_setting_not_restored', info)
    dflt = scared.Container.__init__.__defaults__
    t.check(dflt is None or all(not isinstance(d, list) or d == [] for d in dflt), 'shared_default_argument_modified', lambda: dict(info, defaults=repr(dflt)[:200]))
    # the trace set handed to the containers (samples and metadata held in memory: batches are views of these arrays) is the caller's
    t.count('trace_set_digests_compared')
    t.check((samples.tobytes(), v.tobytes(), tid.tobytes()) == ths_snapshot, 'trace_set_modified_by_run', lambda: dict(info, samples_changed=samples.tobytes() != ths_snapshot[0],
                                                                                                                   metadata_changed=v.tobytes() != ths_snapshot[1]))
    if nruns > 1:
        t.count('multi_run_sequences')
    # ---- trace specification over the event log
    t.count('batches_logged', len(log_updates))
    if not t.check(len(log_ids) == len(log_updates), 'one_selection_call_per_batch', lambda: dict(info, selection_calls=len(log_ids), updates=len(log_updates))):
        return t.result()
    flat = [i for b in log_ids for i in b]
    t.count('ids_logged', len(flat))
    t.check(flat == list(range(N)), 'traces_not_used_exactly_once_in_order', lambda: dict(info, ids=flat[:60], missing=sorted(set(range(N)) - set(flat))[:20],
                                                                                      duplicated=sorted({i for i in flat if flat.count(i) > 1})[:20]))
    for b, (ids, (tr, dd)) in enumerate(zip(log_ids, log_updates)):
        ids_a = np.array(ids, dtype=int)
        if len(ids_a) == 0 or ids_a.max() >= N:
            continue
        expX = Xf[ids_a]
        for p in chain:
            expX = p(expX)
        t.count('batch_rows_compared', len(ids))
        t.check(tol.same(tr, expX), 'batch_samples_are_not_frame_then_chain_of_own_rows', lambda: dict(info, batch=b, ids=ids[:10], diff=tol.first_diff(tr, expX)))
        expD = data_all[ids_a]
        t.check(tol.same(dd, expD), 'batch_data_not_from_own_metadata', lambda: dict(info, batch=b, ids=ids[:10], diff=tol.first_diff(dd, expD)))
    for r, (s, e) in enumerate(run_marks):
        sizes = [len(b) for b in log_ids[s:e]]
        n_r = cuts[r + 1] - cuts[r]
        eb = expected_bs
        if conv:
            # documented rule: batches are cut so that convergence points fall on batch boundaries
            eb = conv if expected_bs >= conv else int(conv / (conv // expected_bs))
        ok = sum(sizes) == n_r and all(x == eb for x in sizes[:-1]) and (not sizes or 0 < sizes[-1] <= eb)
        t.check(ok, 'batch_sizes_do_not_follow_the_configured_rule', lambda: dict(info, run=r, sizes=sizes[:20], traces_in_run=n_r))
        if sizes and sizes[-1] == 1 and len(sizes) > 1:
            t.count('tail_batch_of_one')
        if n_r < expected_bs:
            t.count('smaller_than_one_batch')
    # ---- one-shot oracle
    spec = dict(name=dict(CPA='cpa', DPA='dpa', ANO='anova', NIC='nicv', SNR='snr', MIA='mia', Tem='tbuild')[klass[:3]], precision=precision, partitions=parts)
    if edges is not None:
        spec['bin_edges'] = edges.tolist()
        spec['mia_precision'] = precision
    one = subjects.make(spec)
    if forced:
        CONTROL.force(one, [int(rng.integers(2))])
    one.update(np.ascontiguousarray(X), data_all)
    exp = one.compute()
    t.count('results_vs_one_shot')
    t.check(tol.same(a.results, exp), 'results_differ_from_one_shot_statistic', lambda: dict(info, diff=tol.first_diff(a.results, exp)))
    t.check(int(a.processed_traces) == N, 'processed_traces_wrong', lambda: dict(info, processed_traces=int(a.processed_traces)))
    if klass == 'TemplateBuild':
        t.check(tol.same(a.pooled_covariance, one.pooled_covariance), 'results_differ_from_one_shot_statistic', lambda: dict(info, what='pooled_covariance'))
    if conv:
        t.count('runs_with_convergence_step')
    if klass == 'CPAReverse' and not mia_fine:
        # two analyses one after the other on the SAME trace set object, with configurations that look alike (same preprocess class with
        # other parameters, index frames with the same head and tail): each must see its own samples
        import scared.preprocesses as pp
        vv = np.asarray(model(sf_formula(v)))
        long_a = np.array([0] * 12 + [min(1, T - 1)] * 20 + [0] * 12)
        long_b = np.array([0] * 12 + [T - 1] * 20 + [0] * 12)
        pairs = [((None, [pp.ToPower(power=2)]), (None, [pp.ToPower(power=3)])),
                 ((long_a, []), (long_b, [])),
                 ((None, [pp.CenterOn(mean=np.zeros(T, dtype='float32'))]), (None, [pp.CenterOn(mean=np.ones(T, dtype='float32'))]))]
        for (cfg1, cfg2) in pairs:
            for (fr, ch) in (cfg1, cfg2):
                a2 = scared.CPAReverse(selection_function=scared.reverse_selection_function(lambda v: sf_formula(np.asarray(v))), model=model, precision='float64')
                a2.run(scared.Container(ths, frame=fr, preprocesses=list(ch)) if fr is not None else scared.Container(ths, preprocesses=list(ch)))
                X2 = samples[:, fr] if fr is not None else samples
                for q in ch:
                    X2 = q(X2)
                one2 = subjects.make(dict(name='cpa', precision='float64'))
                one2.update(np.ascontiguousarray(np.asarray(X2)), np.ascontiguousarray(vv))
                t.count('look_alike_runs_on_one_trace_set')
                t.check(tol.same(a2.results, one2.compute()), 'results_differ_from_one_shot_statistic', lambda: dict(info, second_analysis=True, frame=repr(fr)[:40], chain=[type(q).__name__ for q in ch]))
    sig = f"{klass}|{N}|{T}|{sdt}|{info['frame']}|{cdesc}|{rule}|{expected_bs}|{cuts}|{precision}|{conv}"
    return t.result(sig=sig, sample=dict(case=case, derived=info, batch_sizes=[len(b) for b in log_ids][:12]))
