"""C04 - ANOVA, NICV and SNR results equal their definitions over value classes.

Oracle: vf.oracles.partitioned (exact rational arithmetic on integer-valued inputs, by class *value*, over the
non-empty classes), tolerance from the first-order model.  Metamorphic twin: the same data with a superset
class list.  Both accumulation kernels are dictated through the SCARED_VERIF hook and the choice is recorded.
"""
import math

import numpy as np

from .. import core, gen, subjects, tol, oracles
from ..monitors import CONTROL

ID = 'C04'
LEVEL = 'exploration'
WORKERS = {'quick': 10, 'thorough': 14}
BUDGET_S = {'quick': 70, 'thorough': 480}
REQUIRED_COUNTERS = ['entries_compared', 'nan_entries_expected', 'superset_twins', 'kernel0_batches', 'kernel1_batches', 'auto_class_sets', 'empty_class_cases', 'cases_with_undeclared_values', 'repeated_computes']
RULE = ('a case = (anova | nicv | snr, precision, regime E|R, class mode: explicit list (gaps, unused values, any order) | automatic '
        '(first-batch maximum below 9 / 64 / 256), structure: balanced | unbalanced | single class | one trace per class | constant '
        'classes | all equal, 1-4 words, forced kernel per batch, 1-3 batches, sub-seed); non-trivial = at least one defined entry compared '
        'or one NaN clause decided; distinct by all of these')
ASSUMPTIONS = ['exact regime: NaN expected exactly where the definition divides by zero (k=1, n=k, zero within-class / total variance)',
               'tolerance 64*eps*scale (E) / 16*n*eps*scale (R); entries beyond the decidability threshold are counted, not judged',
               'automatic class sets: the first batch contains the largest value (they are frozen from the first batch by design)']

KINDS = ['anova', 'nicv', 'snr']
STRUCT = ['balanced', 'unbalanced', 'single', 'one_per_class', 'const_classes', 'all_equal']


def setup():
    if not CONTROL.install():
        raise core.Inconclusive('kernel-choice hook not available')


def cases(tier, seed):
    out = []
    k = 0
    for name in KINDS:
        for prec in ('float32', 'float64'):
            for struct in STRUCT:
                out.append(dict(gen='part', subject=name, precision=prec, regime='E', struct=struct, mode=['explicit', 'auto'][k % 2],
                                sub=core.subseed('C04', seed, k), must=True))
                k += 1
            out.append(dict(gen='part', subject=name, precision=prec, regime='R', struct='unbalanced', mode='explicit', sub=core.subseed('C04', seed, k), must=True))
            k += 1
    # big batches of 8-bit traces: per-class sums of squares far beyond 2^24 inside ONE batch (single-precision fast paths lose bits there)
    for j in range(3 if tier == 'quick' else 30):
        out.append(dict(gen='part', subject=KINDS[j % 3], precision='float64', regime='E', struct=['balanced', 'unbalanced'][j % 2], mode='explicit', big=[6000, 20000, 9000][j % 3],
                        sub=core.subseed('C04big', seed, j), must=j < 3))
    # hundreds of intermediate words (guesses x words of a real attack) in batches of thousands of traces, handled by either kernel
    for j, (name, mw) in enumerate((('snr', 1024), ('anova', 700), ('nicv', 2048)) if tier == 'quick' else (('snr', 1024), ('anova', 700), ('nicv', 2048), ('snr', 2048), ('anova', 1024), ('nicv', 513))):
        out.append(dict(gen='part', subject=name, precision='float64', regime='E', struct='balanced', mode='explicit', manywords=mw, sub=core.subseed('C04mw', seed, j), must=True))
    rs = np.random.default_rng(core.subseed('C04r', seed))
    n_rand = 260 if tier == 'quick' else 7000
    for j in range(n_rand):
        regime = 'E' if rs.random() < 0.7 else 'R'
        out.append(dict(gen='part', subject=KINDS[int(rs.integers(3))], precision=['float32', 'float64'][int(rs.integers(2))], regime=regime,
                        struct=STRUCT[int(rs.integers(len(STRUCT)))] if regime == 'E' else ['balanced', 'unbalanced'][int(rs.integers(2))],
                        mode=['explicit', 'explicit', 'auto'][int(rs.integers(3))], sub=int(rs.integers(2 ** 62))))
    return out


def run_case(case):
    t = core.Tally()
    rng = gen.rng_of(case['sub'])
    name, prec, regime, struct, mode = case['subject'], case['precision'], case['regime'], case['struct'], case['mode']
    W = int(rng.integers(1, 5))
    T = int(rng.integers(1, 9))
    if mode == 'auto':
        maxv = int(rng.choice([1, 3, 8, 9, 20, 63, 64, 100, 255]))
        used = np.unique(np.append(rng.integers(0, maxv + 1, int(rng.integers(1, 12))), maxv))
        declared = None
    else:
        K = int(rng.choice([2, 3, 5, 9, 10, 16, 40])) if not (case.get('big') or case.get('manywords')) else int(rng.choice([2, 3, 9])) if case.get('big') else 9
        base = int(rng.choice([0, 0, 1, 200, 1000, 70000]))
        declared = (base + rng.permutation(2 * K)[:K]).tolist()
        nu = int(rng.integers(1, K + 1))
        used = np.array(declared)[rng.permutation(K)[:nu]]          # some declared classes stay empty
        if case.get('manywords'):
            used = np.array(declared)[rng.permutation(K)[:max(nu, 4)]]
    if struct == 'single':
        used = used[:1] if mode != 'auto' else np.array([used.max()])
    ku = len(used)
    if struct == 'one_per_class':
        n = ku
    else:
        n = gen.pick_n(rng, [ku + 1, 2 * ku + 3, 40, 150, 600])
    if case.get('big'):
        n, W, T = int(case['big']), 1, int(rng.integers(1, 3))
        t.count('big_batch_cases')
    if case.get('manywords'):
        n, W, T = int(rng.choice([2100, 3000])), int(case['manywords']), 1
        t.count('many_word_cases')
    ddt = 'int32' if (np.max(used) > 32000) else subjects.DATA_DTYPES_LUT[int(rng.integers(6))]
    if np.max(used) > np.iinfo(ddt).max:
        ddt = 'int32'
    # class of every trace and word
    if struct == 'one_per_class':
        data = np.stack([rng.permutation(used) for _ in range(W)], axis=1)
    elif struct == 'unbalanced':
        p = rng.dirichlet(np.ones(ku) * 0.4)
        data = rng.choice(used, (n, W), p=p)
    else:
        data = rng.choice(used, (n, W))
    if mode == 'auto':
        data[0, 0] = used.max()
    # traces whose value is not a class value (undeclared, or beyond the class set frozen by the first batch) take no part
    foreign_rows = 0
    first = None
    if struct not in ('one_per_class',) and n >= 4 and rng.random() < 0.5:
        if declared is not None:
            pool = [v for v in (max(declared) + 1, max(declared) + 17, min(declared) - 1, 0, 7, 255) if v not in declared and 0 <= v < 2 ** 17]
        else:
            r_auto = min(x for x in (9, 64, 256) if int(used.max()) < x)
            pool = [v for v in (r_auto, r_auto + 3, 255, 300) if v >= r_auto]
        if pool:
            first = int(rng.integers(1, n - 1)) if declared is None else 0      # automatic class sets: the first batch only holds class values
            m = rng.random((n, W)) < 0.15
            m[:first + 1 if declared is None else 0] = False
            if declared is None:
                m[:max(first, 1)] = False
            data = np.where(m, rng.choice(pool, (n, W)), data)
            foreign_rows = int(m.any(1).sum())
    tdtype = gen.TRACE_DTYPES[int(rng.integers(len(gen.TRACE_DTYPES)))]
    if case.get('big'):
        tdtype = ['uint8', 'int8'][int(rng.integers(2))]
    if regime == 'E':
        X = max(1, gen.exact_bound(n, prec, mode='full'))
        if n * n > gen.LIMIT[prec] - 1:
            n = math.isqrt(gen.LIMIT[prec] - 1)
            data = data[:n]
        traces = gen.int_traces(rng, n, T, tdtype, X)
        if struct == 'const_classes':
            # every class constant on word 0: within-class variance exactly zero for that word
            lv = {int(v): int(rng.integers(-X, X + 1)) if np.dtype(tdtype).kind != 'u' else int(rng.integers(0, X + 1)) for v in used}
            traces = np.array([[lv.get(int(data[i, 0]), 1)] * T for i in range(n)]).astype(tdtype)
        elif struct == 'all_equal':
            traces[:] = traces[0]
    else:
        if tdtype not in gen.TRACE_DTYPES_FLOAT:
            tdtype = gen.TRACE_DTYPES_FLOAT[int(rng.integers(2))]
        cm = {int(v): rng.normal(0, 2, T) for v in used}
        traces = (float(rng.choice([0.0, 30.0, 1000.0])) + np.array([cm.get(int(data[i, 0]), np.zeros(T)) for i in range(n)]) + rng.normal(0, 1, (n, T))).astype(tdtype)
    if foreign_rows and int(data.max()) > np.iinfo(ddt).max:
        ddt = 'int32' if int(data.max()) > 65535 else 'uint16'
    data = data.astype(ddt)
    traces = gen.layout(rng, traces)
    classes = declared if declared is not None else sorted(int(v) for v in np.unique(data) if v <= int(used.max()))
    if foreign_rows:
        t.count('cases_with_undeclared_values')
    if declared is not None and len(used) < len(declared):
        t.count('empty_class_cases')
    if mode == 'auto':
        t.count('auto_class_sets')
    spec = dict(name=name, precision=prec, partitions=declared)
    if declared is not None and rng.random() < 0.4:
        ok_dt = [d for d in ('uint8', 'uint16', 'int16', 'uint32', 'int64') if min(declared) >= np.iinfo(d).min and max(declared) <= np.iinfo(d).max]
        spec['partitions_as'] = ok_dt[int(rng.integers(len(ok_dt)))]
        t.count('class_list_as_ndarray')
    sizes = [n] if (mode == 'auto' and n < 3) or rng.random() < 0.4 else gen.split_sizes(rng, n, kmax=3)
    if foreign_rows and declared is None:
        # the automatic class set is frozen by the first batch: it must end before the first foreign value
        fr = int(np.argmax((data > int(used.max())).any(1)))
        cut = int(rng.integers(1, fr + 1))
        rest = n - cut
        sizes = [cut] + ([rest] if rest < 2 or rng.random() < 0.5 else [rest // 2, rest - rest // 2])
    between = bool(rng.random() < 0.5)
    kseq = [int(v) for v in rng.integers(0, 2, len(sizes))]
    if case.get('big'):
        sizes = [n // 2, n - n // 2]
        kseq = [[0, 1], [1, 1], [1, 0]][int(rng.integers(3))]
    if case.get('manywords'):
        sizes = [100, n - 100]
        kseq = [[0, 1], [1, 1]][int(rng.integers(2))]
        between = False

    def execute(sp):
        obj = subjects.make(sp)
        CONTROL.force(obj, list(kseq))
        pos = 0
        for s in sizes:
            obj.update(traces[pos:pos + s], data[pos:pos + s])
            pos += s
            if between:
                with np.errstate(all='ignore'):
                    obj.compute()               # asking for the result between batches must not disturb later ones
        with np.errstate(all='ignore'):
            if between:
                first = obj.compute()
                try:
                    first[...] = 7.0      # the caller overwrites the array it was given; the next compute() is unaffected
                except (ValueError, TypeError):
                    pass
            return obj, np.asarray(obj.compute())

    obj, got = execute(spec)
    with np.errstate(all='ignore'):
        again = np.asarray(obj.compute())
    t.count('repeated_computes')
    t.check(tol.same(got, again), 'second_compute_differs', lambda: dict(case=case, diff=tol.first_diff(got, again)))
    for c in CONTROL.choices_of(obj):
        t.count(f'kernel{c}_batches')
    info = dict(case=case, n=n, T=T, W=W, tdtype=tdtype, ddt=ddt, undeclared_rows=foreign_rows, computes_between_batches=between, declared=declared, used=[int(v) for v in used], sizes=sizes, kernels=CONTROL.choices_of(obj))
    val, scale, undef = oracles.partitioned(name, np.asarray(traces), data, classes)
    t.check(got.shape == (W, T), 'result_shape', lambda: dict(info, got_shape=got.shape))
    t.check(not np.isinf(got).any(), 'infinite_result', lambda: dict(info, index=[int(v) for v in np.argwhere(np.isinf(got))[0]]))
    if got.shape != (W, T):
        return t.result(sig=core.digest(case), sample=info)
    got = got.astype(float)
    eps = tol.eps_of(prec)
    tl = (tol.C_E if regime == 'E' else tol.C_R * n) * eps * scale
    thr = tol.UNDECIDABLE_E if regime == 'E' else tol.UNDECIDABLE_R
    decid = ~undef & (tl <= thr * np.maximum(np.abs(val), 1.0))
    t.count('entries_undecidable_by_rounding', int((~undef & ~decid).sum()))
    if regime == 'E':
        t.count('nan_entries_expected', int(undef.sum()))
        bad = undef & ~np.isnan(got)
        t.check(not bad.any(), 'undefined_entry_not_nan', lambda: dict(info, index=[int(v) for v in np.argwhere(bad)[0]], got=float(got[tuple(np.argwhere(bad)[0])])))
        bad = decid & ~np.isfinite(got)
        t.check(not bad.any(), 'defined_entry_not_finite', lambda: dict(info, index=[int(v) for v in np.argwhere(bad)[0]], got=float(got[tuple(np.argwhere(bad)[0])]),
                                                                      expected=float(val[tuple(np.argwhere(bad)[0])])))
    else:
        decid &= np.isfinite(got)
    t.count('entries_compared', int(decid.sum()))
    if decid.any():
        with np.errstate(all='ignore'):
            diff = np.abs(got - val)
            t.metric('ratio_' + regime, float(np.nanmax(np.where(decid, diff / np.maximum(tl, 1e-300), 0))))
        bad = decid & (diff > tl)
        t.check(not bad.any(), f'{name}_value', lambda: dict(info, index=[int(v) for v in np.argwhere(bad)[0]], got=float(got[tuple(np.argwhere(bad)[0])]),
                                                           expected=float(val[tuple(np.argwhere(bad)[0])]), tol=float(tl[tuple(np.argwhere(bad)[0])]), n_bad=int(bad.sum())))
    # metamorphic: extra declared-but-unused class values do not influence the result
    if declared is not None and rng.random() < 0.6:
        present = set(int(v) for v in np.unique(data))
        extra = [int(v) for v in (max(declared) + 30 + rng.permutation(6)[:int(rng.integers(1, 4))]) if int(v) not in present]
        sup = list(declared) + extra
        order = rng.permutation(len(sup))
        sup = [sup[i] for i in order]
        _, got_s = execute(dict(spec, partitions=sup))
        t.count('superset_twins')
        got_s = got_s.astype(float)
        both = decid & np.isfinite(got_s)
        if regime == 'E':
            bad = np.isnan(got) != np.isnan(got_s)
            t.check(not bad.any(), 'superset_changes_nan_pattern', lambda: dict(info, superset=sup))
        with np.errstate(all='ignore'):
            bad = both & (np.abs(got - got_s) > 2 * tl)
        t.check(not bad.any(), 'unused_class_changes_result', lambda: dict(info, superset=sup, index=[int(v) for v in np.argwhere(bad)[0]],
                                                                          a=float(got[tuple(np.argwhere(bad)[0])]), b=float(got_s[tuple(np.argwhere(bad)[0])])))
    for c in REQUIRED_COUNTERS:
        t.count(c, 0)
    sig = f"{name}|{prec}|{regime}|{struct}|{mode}|{n}x{T}x{W}|{tdtype}|{ddt}|{len(classes)}|{kseq}"
    return t.result(nontrivial=bool(decid.any() or undef.any()), sig=sig, sample=dict(info, undefined=int(undef.sum()), compared=int(decid.sum())))
