"""C10 - key schedules conform and invert: AES from any window, DES from any round key.

Oracle: reference AES key expansion (vf.refs.aes_ref.expand) and reference DES PC-1/shift/PC-2 schedule
(vf.refs.des_ref.round_keys).  Every (key size, col_in, col_out) triple is enumerated.
"""
import numpy as np

from .. import core
from .. import gen as _gen
from ..refs import aes_ref as A
from ..refs import des_ref as D

ID = 'C10'
LEVEL = 'exploration'
WORKERS = {'quick': 6, 'thorough': 14}
BUDGET_S = {'quick': 60, 'thorough': 400}
REQUIRED_COUNTERS = ['aes_windows', 'aes_schedules', 'aes_inv_schedules', 'des_schedules', 'des_master_keys', 'history_calls', 'retained_results_rechecked', 'des_master_special_keys']
RULE = ('AES: every (key size, col_in in [0,total-Nk], col_out in [0,total]) triple x a batch of keys (random + structured: zeros, '
        'FF, walking byte) queried both as a batch and (sub-sampled) as single keys; key_schedule and inv_key_schedule from every '
        'round; DES: key_schedule for every interrupt_after_round on random + walking-one keys (single and batch), get_master_key '
        'from each of the 16 round keys. Non-trivial = compared with the independent reference; distinct by (generator, key size, '
        'sub-seed, round)')
ASSUMPTIONS = ['vf.refs.aes_ref.expand and vf.refs.des_ref.round_keys are correct (self-tested against FIPS vectors)',
               'windows are taken from a true schedule (arbitrary non-schedule windows are not the property)']
TOTAL = {16: 44, 24: 52, 32: 60}


def exhaustive_note(tier):
    return ['all 1845 + 2491 + 3233 (key size, col_in, col_out) triples', 'inv_key_schedule from rounds 0..10',
            'DES key_schedule for interrupt_after_round 0..15', 'get_master_key from round keys 0..15']


def setup():
    err = A.self_test() or D.self_test()
    if err:
        raise core.Inconclusive('reference self-test failed: ' + err)


def cases(tier, seed):
    out = []
    k = 0
    for nk in (16, 24, 32):
        total = TOTAL[nk]
        cols = list(range(0, total - nk // 4 + 1))
        # each case handles a slice of col_in values, all col_out
        step = 6
        for i in range(0, len(cols), step):
            out.append(dict(gen='aes_windows', nk=nk, col_ins=cols[i:i + step], pattern=k % 4, sub=core.subseed('C10', seed, k), must=True))
            k += 1
        for pat in range(4):
            out.append(dict(gen='aes_schedule', nk=nk, pattern=pat, sub=core.subseed('C10s', seed, nk + pat), must=True))
    for pat in range(4):
        out.append(dict(gen='aes_inv', pattern=pat, sub=core.subseed('C10i', seed, pat), must=True))
        out.append(dict(gen='des_schedule', pattern=pat, sub=core.subseed('C10d', seed, pat), must=True))
    out.append(dict(gen='des_master_special', sub=core.subseed('C10ms', seed), must=True))
    nkeys = 2 if tier == 'quick' else 40
    for j in range(nkeys):
        for r0 in range(0, 16, 4):
            out.append(dict(gen='des_master', rounds=list(range(r0, r0 + 4)), sub=core.subseed('C10m', seed, j), must=(j == 0)))
    for j in range(6 if tier == 'quick' else 150):
        out.append(dict(gen='history', calls=60, sub=core.subseed('C10h', seed, j), must=j < 3))
    if tier == 'thorough':
        rs = np.random.default_rng(core.subseed('C10r', seed))
        for j in range(300):
            nk = int(rs.choice([16, 24, 32]))
            cols = list(range(0, TOTAL[nk] - nk // 4 + 1))
            i = int(rs.integers(len(cols)))
            out.append(dict(gen='aes_windows', nk=nk, col_ins=cols[i:i + 3], pattern=j % 4, sub=int(rs.integers(2 ** 62))))
        for j in range(40):
            out.append(dict(gen='des_schedule', pattern=j % 4, sub=int(rs.integers(2 ** 62))))
            out.append(dict(gen='aes_inv', pattern=j % 4, sub=int(rs.integers(2 ** 62))))
        for j in range(10):
            out.append(dict(gen='des_master_special', sub=int(rs.integers(2 ** 62))))
    return out


def _ro(a):
    v = np.asarray(a).view()          # read-only view keeping the memory layout
    v.setflags(write=False)
    return v


def _arrange(keys, pattern, rng):
    """Batches with structure between their rows: 0 as generated; 1 palindrome (first row == last row, the middle differs);
    2 all rows equal; 3 runs of equal rows in shuffled order."""
    if pattern == 1:
        return keys + keys[-2::-1]
    if pattern == 2:
        return [keys[0]] * 5
    if pattern == 3:
        k2 = [k for k in keys for _ in range(2)]
        return k2 if rng.random() < 0.5 else [k2[i] for i in rng.permutation(len(k2))]
    return keys


def _aes_keys(nk, rng, n_random=3):
    keys = [rng.integers(0, 256, nk).tolist() for _ in range(n_random)]
    keys += [[0] * nk, [255] * nk]
    pos = int(rng.integers(nk))
    for v in (1, 0x80, int(rng.integers(256))):
        kk = [0] * nk
        kk[pos] = v
        keys.append(kk)
    return keys


def run_case(case):
    import scared
    t = core.Tally()
    rng = np.random.default_rng(case['sub'])
    g = case['gen']
    if g == 'aes_windows':
        nk = case['nk']
        ncols, total = nk // 4, TOTAL[nk]
        keys = _arrange(_aes_keys(nk, rng), case.get('pattern', 0), rng)
        t.count('key_batch_pattern:%d' % case.get('pattern', 0))
        flat = [sum(A.expand(k), []) for k in keys]            # 4*total bytes each
        dt = ['uint8', 'int32', 'uint16', 'int64'][int(rng.integers(4))]
        for col_in in case['col_ins']:
            window = _ro(_gen.layout_nd(rng, np.array([f[4 * col_in: 4 * (col_in + ncols)] for f in flat], dtype=dt)))
            t.count('key_batch_layout:' + ('C' if window.flags.c_contiguous else 'non_C'))
            snap = window.tobytes()
            for col_out in range(0, total + 1):
                got = scared.aes.key_expansion(window, col_in=col_in, col_out=col_out)
                lo, hi = (col_in, col_out) if col_in < col_out else (col_out, col_in + ncols)
                exp = np.array([f[4 * lo: 4 * hi] for f in flat], dtype='uint8')
                t.count('aes_windows')
                t.check(np.shape(got) == exp.shape and np.array_equal(got, exp), 'aes_key_expansion_window',
                        lambda: dict(nk=nk, col_in=col_in, col_out=col_out, key=keys[0], got_shape=np.shape(got), exp_shape=exp.shape,
                                     first_bad_key=int(np.argwhere(np.any(np.asarray(got) != exp, axis=1))[0][0]) if np.shape(got) == exp.shape else None))
            # single (1-D) key window, two col_out values per col_in (forward and backward)
            w1 = _ro(np.array(flat[0][4 * col_in: 4 * (col_in + ncols)], dtype='uint8'))
            for col_out in (total, 0, int(rng.integers(total + 1))):
                got = scared.aes.key_expansion(w1, col_in=col_in, col_out=col_out)
                lo, hi = (col_in, col_out) if col_in < col_out else (col_out, col_in + ncols)
                exp = np.array([flat[0][4 * lo: 4 * hi]], dtype='uint8')
                t.count('aes_windows')
                t.check(np.array_equal(np.asarray(got).reshape(1, -1), exp), 'aes_key_expansion_single_key', lambda: dict(nk=nk, col_in=col_in, col_out=col_out, key=keys[0]))
            if col_in == case['col_ins'][0]:
                got = scared.aes.key_expansion(window, col_in=col_in)      # default col_out = end of the schedule
                exp = np.array([f[4 * col_in:] for f in flat], dtype='uint8')
                t.check(np.array_equal(got, exp), 'aes_key_expansion_default_col_out', lambda: dict(nk=nk, col_in=col_in))
            t.check(window.tobytes() == snap, 'input_modified', 'key_expansion')
        for c in REQUIRED_COUNTERS:
            t.count(c, 0)
        return t.result(sig=f"aesw|{nk}|{case['col_ins']}|{case['sub']}", sample=dict(case=case, comparisons=t.checks))
    if g == 'aes_schedule':
        nk = case['nk']
        keys = _arrange(_aes_keys(nk, rng, 6), case.get('pattern', 0), rng)
        exp = np.array([A.expand(k) for k in keys], dtype='uint8')
        got = scared.aes.key_schedule(_ro(_gen.layout_nd(rng, np.array(keys, dtype='uint8'))))
        t.count('aes_schedules', len(keys))
        t.check(np.shape(got) == exp.shape and np.array_equal(got, exp), 'aes_key_schedule_batch', lambda: dict(nk=nk, got_shape=np.shape(got), exp_shape=exp.shape))
        for i in (0, 3, 4):
            got = scared.aes.key_schedule(_ro(np.array(keys[i], dtype='uint8')))
            t.count('aes_schedules')
            t.check(np.shape(got) == exp[i].shape and np.array_equal(got, exp[i]), 'aes_key_schedule_single', lambda: dict(nk=nk, key=keys[i]))
        for c in REQUIRED_COUNTERS:
            t.count(c, 0)
        return t.result(sig=f"aess|{nk}|{case['sub']}", sample=dict(case=case, comparisons=t.checks))
    if g == 'aes_inv':
        keys = _arrange(_aes_keys(16, rng, 4), case.get('pattern', 0), rng)
        sched = np.array([A.expand(k) for k in keys], dtype='uint8')
        for r in range(11):
            got = scared.aes.inv_key_schedule(_ro(_gen.layout_nd(rng, sched[:, r].copy())), round_in=r)
            t.count('aes_inv_schedules', len(keys))
            t.check(np.shape(got) == sched.shape and np.array_equal(got, sched), 'aes_inv_key_schedule', lambda: dict(round_in=r, key=keys[0]))
            got = scared.aes.inv_key_schedule(_ro(sched[1, r].copy()), round_in=r)
            t.check(np.array_equal(np.asarray(got).reshape(11, 16), sched[1]), 'aes_inv_key_schedule_single', lambda: dict(round_in=r, key=keys[1]))
            # independent inverse written from the schedule equations
            t.check(A.inv_expand_128(sched[2, r].tolist(), r) == keys[2], 'reference_inverse_selfcheck', None)
        got = scared.aes.inv_key_schedule(_ro(sched[:, 10].copy()))          # default round_in=10
        t.check(np.array_equal(got, sched), 'aes_inv_key_schedule_default', None)
        for c in REQUIRED_COUNTERS:
            t.count(c, 0)
        return t.result(sig=f"aesi|{case['sub']}", sample=dict(case=case, comparisons=t.checks))
    if g == 'des_schedule':
        keys = rng.integers(0, 256, (4, 8)).tolist() + [[0] * 8, [255] * 8]
        for i in range(64):
            kk = [0] * 8
            kk[i // 8] = 0x80 >> (i % 8)
            keys.append(kk)
        keys = _arrange(keys, case.get('pattern', 0), rng)
        exp = np.array([D.round_keys(k) for k in keys], dtype='uint8')
        dt = ['uint8', 'int16', 'int64'][int(rng.integers(3))]
        arr = _ro(_gen.layout_nd(rng, np.array(keys, dtype=dt)))
        for r in range(16):
            got = scared.des.key_schedule(arr, interrupt_after_round=r)
            t.count('des_schedules', len(keys))
            t.check(np.shape(got) == exp[:, :r + 1].shape and np.array_equal(got, exp[:, :r + 1]), 'des_key_schedule_batch',
                    lambda: dict(interrupt_after_round=r, got_shape=np.shape(got), first_bad_key=keys[int(np.argwhere(np.any(np.asarray(got).reshape(len(keys), -1) != exp[:, :r + 1].reshape(len(keys), -1), axis=1))[0][0])] if np.size(got) == exp[:, :r + 1].size else None))
            got = scared.des.key_schedule(_ro(np.array(keys[1], dtype='uint8')), interrupt_after_round=r)
            t.check(np.shape(got) == (r + 1, 8) and np.array_equal(got, exp[1, :r + 1]), 'des_key_schedule_single', lambda: dict(interrupt_after_round=r, key=keys[1]))
        got = scared.des.key_schedule(arr)
        t.check(np.array_equal(got, exp), 'des_key_schedule_default', None)
        for c in REQUIRED_COUNTERS:
            t.count(c, 0)
        return t.result(sig=f"dess|{case['sub']}", sample=dict(case=case, comparisons=t.checks))
    if g == 'des_master':
        key = rng.integers(0, 256, 8).tolist()
        pt = rng.integers(0, 256, 8).tolist()
        ct = D.crypt(pt, key)
        rks = D.round_keys(key)
        for r in case['rounds']:
            dts = [['uint8', 'uint8', 'uint8'], ['int64', 'int64', 'int64'], ['uint8', 'uint16', 'int32'], ['int16', 'uint8', 'uint64']][(r + case['sub']) % 4]
            got = scared.des.get_master_key(_ro(np.array(rks[r], dtype=dts[0])), r, _ro(np.array(pt, dtype=dts[1])), _ro(np.array(ct, dtype=dts[2])))
            t.count('des_master_keys')
            ok = got is not None and [int(v) & 0xFE for v in np.asarray(got).tolist()] == [v & 0xFE for v in key]
            t.check(ok, 'des_get_master_key', lambda: dict(round=r, key=key, got=None if got is None else np.asarray(got).tolist()))
        for c in REQUIRED_COUNTERS:
            t.count(c, 0)
        return t.result(sig=f"desm|{case['sub']}|{case['rounds']}", sample=dict(case=case, comparisons=t.checks))
    if g == 'des_master_special':
        # keys whose effective bits are special: all zero (with either parity), all one, the weak and semi-weak keys, one effective bit
        specials = [[0] * 8, [1] * 8, [0xFE] * 8, [0xFF] * 8, [0, 1] * 4, [0x1F, 0x1F, 0x1F, 0x1F, 0x0E, 0x0E, 0x0E, 0x0E], [0xE0, 0xE0, 0xE0, 0xE0, 0xF1, 0xF1, 0xF1, 0xF1],
                    [0x01, 0xFE] * 4, [0x1F, 0xE0, 0x1F, 0xE0, 0x0E, 0xF1, 0x0E, 0xF1], [int(v) for v in rng.integers(0, 2, 8)]]
        for i in (int(rng.integers(64)), int(rng.integers(64))):
            kk = [0] * 8
            kk[i // 8] = 0x80 >> (i % 8)
            specials.append(kk)
        for key in specials:
            pt = rng.integers(0, 256, 8).tolist()
            ct = D.crypt(pt, key)
            rks = D.round_keys(key)
            for r in sorted({0, 15, int(rng.integers(16)), int(rng.integers(16))}):
                got = scared.des.get_master_key(_ro(np.array(rks[r], dtype='uint8')), r, _ro(np.array(pt, dtype='uint8')), _ro(np.array(ct, dtype='uint8')))
                t.count('des_master_keys')
                t.count('des_master_special_keys')
                ok = got is not None and [int(v) & 0xFE for v in np.asarray(got).tolist()] == [v & 0xFE for v in key]
                t.check(ok, 'des_get_master_key', lambda: dict(round=r, key=key, special=True, got=None if got is None else np.asarray(got).tolist()))
        for c in REQUIRED_COUNTERS:
            t.count(c, 0)
        return t.result(sig=f"desms|{case['sub']}", sample=dict(case=case, comparisons=t.checks))
    if g == 'history':
        # random call sequences on shared key buffers rewritten in place: a result must not depend on earlier calls
        kb = {nk: np.zeros(nk, dtype='uint8') for nk in (16, 24, 32)}
        dk, dkb = np.zeros(8, dtype='uint8'), np.zeros((3, 8), dtype='uint8')
        log = []
        kept = []                              # (call, op, the object returned, a private copy of its content when it was returned)
        for c in range(case['calls']):
            op = ['aes_sched', 'aes_exp', 'des_sched', 'des_sched', 'des_sched_batch', 'aes_inv'][int(rng.integers(6))]
            if op in ('aes_sched', 'aes_exp'):
                nk = int(rng.choice([16, 24, 32]))
                if rng.random() < 0.6:
                    kb[nk][...] = rng.integers(0, 256, nk)
                full = sum(A.expand(kb[nk].tolist()), [])
                if op == 'aes_sched':
                    raw = scared.aes.key_schedule(kb[nk])
                    got = np.asarray(raw).reshape(-1).tolist()
                    exp = full
                else:
                    ncols, total = nk // 4, TOTAL[nk]
                    ci = int(rng.integers(0, total - ncols + 1))
                    co = int(rng.integers(0, total + 1))
                    win = np.array(full[4 * ci: 4 * (ci + ncols)], dtype='uint8')
                    raw = scared.aes.key_expansion(win, col_in=ci, col_out=co)
                    got = np.asarray(raw).reshape(-1).tolist()
                    lo, hi = (ci, co) if ci < co else (co, ci + ncols)
                    exp = full[4 * lo: 4 * hi]
                    op = f'aes_exp({nk},{ci},{co})'
            elif op == 'aes_inv':
                if rng.random() < 0.6:
                    kb[16][...] = rng.integers(0, 256, 16)
                sched = A.expand(kb[16].tolist())
                r = int(rng.integers(0, 11))
                raw = scared.aes.inv_key_schedule(np.array(sched[r], dtype='uint8'), round_in=r)
                got = np.asarray(raw).reshape(-1).tolist()
                exp = sum(sched, [])
                op = f'aes_inv({r})'
            elif op == 'des_sched':
                if rng.random() < 0.35:
                    dk[...] = rng.integers(0, 256, 8)
                r = int(rng.integers(0, 16))
                raw = got = np.asarray(scared.des.key_schedule(dk, interrupt_after_round=r)) if rng.random() < 0.8 or r != 15 else np.asarray(scared.des.key_schedule(dk))
                exp = np.array(D.round_keys(dk.tolist())[:r + 1], dtype='uint8')
                op = f'des_sched({r})'
                got, exp = (got.tolist() if got.shape == exp.shape else ('shape', got.shape)), exp.tolist()
            else:
                if rng.random() < 0.35:
                    dkb[...] = rng.integers(0, 256, (3, 8))
                r = int(rng.integers(0, 16))
                raw = got = np.asarray(scared.des.key_schedule(dkb, interrupt_after_round=r))
                exp = np.array([D.round_keys(k)[:r + 1] for k in dkb.tolist()], dtype='uint8')
                op = f'des_sched_batch({r})'
                got, exp = (got.tolist() if got.shape == exp.shape else ('shape', got.shape)), exp.tolist()
            log.append(op)
            t.count('history_calls')
            t.check(got == exp, 'result_depends_on_earlier_calls', lambda: dict(case=case, call=c, history=log[-6:]))
            if isinstance(raw, np.ndarray):
                kept.append((c, op, raw, raw.copy()))
                kept = kept[-8:]
            for c0, op0, obj, snap in kept:
                t.count('retained_results_rechecked')
                t.check(np.array_equal(obj, snap), 'retained_result_changed_by_a_later_call', lambda: dict(case=case, returned_by_call=c0, op=op0, changed_after_call=c, history=log[-6:]))
        for c in REQUIRED_COUNTERS:
            t.count(c, 0)
        return t.result(sig=f"hist|{case['sub']}", sample=dict(case=case, last_calls=log[-6:]))
    raise core.Inconclusive('unknown generator ' + g)
