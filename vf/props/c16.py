"""C16 - a rejected update leaves a distinguisher exactly as it was (fault enumeration).

Twin executions of the real classes:
  B  the accepted batches b_1..b_k only (after each: processed_traces and every observable result recorded)
  A_p  b_1..b_p, then ONE rejected call of a given kind, then b_(p+1)..b_k       for every p in 0..k
A call counts as rejected only if it raised; right after it processed_traces and compute() must be those of B
after p batches (for p = 0: compute() refuses exactly like a fresh object), every later valid call must be
accepted and every later observable must be bit-identical to B's (same batches, same dictated kernels).
Calls the code accepts silently are counted `accepted_unexpectedly` and not judged by this property.

Analysis level: process()/run() steps that raise (selection function missing its metadata, model refusing the
dtype, batch of another trace length, preprocess raising at batch j of run()) - afterwards the analysis equals
the accepted batches only, and a second run() on the remaining traces equals the uninterrupted run.
"""
import types

import numpy as np

from .. import core, gen, subjects, tol
from ..monitors import CONTROL
from . import c01

ID = 'C16'
LEVEL = 'fault_enumeration'
WORKERS = {'quick': 12, 'thorough': 14}
BUDGET_S = {'quick': 110, 'thorough': 540}
NUMBA_THREADS = 2
SUBJECTS = ['cpa', 'cpa_alt', 'dpa', 'anova', 'nicv', 'snr', 'mia', 'tbuild', 'tstatic', 'tdpa']
KINDS = ['traces_list', 'data_list', 'data_none', 'rows_mismatch', 'traces_1d', 'trace_len', 'word_count', 'data_float', 'dpa_nonbinary',
         'auto_big', 'auto_negative', 'memory_refused', 'data_int64', 'traces_float16', 'traces_3d', 'huge_value', 'undeclared_hypothesis', 'late_rows']
REQUIRED_COUNTERS = ['auto_partition_first_call_rejections', 'rejections_observed', 'rejections_first_call', 'rejections_later_call', 'state_after_rejection_compared',
                     'later_results_compared', 'analysis_process_rejections', 'analysis_run_interruptions', 'template_run_before_build']
RULE = ('a case = (distinguisher in 10 classes | analysis class, rejection kind in 12 + 5 analysis-level kinds, number k <= 4 of accepted batches, '
        'precision, sub-seed); inside a case EVERY insertion position p in 0..k is executed; non-trivial = at least one call actually '
        'raised and the later history was compared with the twin; distinct by (subject, kind, k, precision, dtype, shapes)')
ASSUMPTIONS = ['only calls that raise are judged (silent acceptance is counted, not judged)',
               'refusals decided on the content of the batch inside _update (template-DPA hypothesis values that are no declared class, also in the last rows of a 33 000 - 70 000-trace batch) are judged like the argument checks; exceptions injected into a kernel are not',
               'same accepted batches and same dictated kernels => identical floating-point operations, compared bit-for-bit in the exact regime; '
               'template matching (BLAS products on float data) falls back to a 1e-6/1e-13 relative bound and counts the occurrence']
MAX_INCONCLUSIVE_FRACTION = 0.0


def setup():
    if not CONTROL.install():
        raise core.Inconclusive('kernel-choice hook not available')


def applicable(name, kind, p):
    if kind in ('traces_list', 'data_list', 'data_none', 'rows_mismatch', 'traces_1d', 'traces_3d'):
        return True
    if kind == 'trace_len':
        return p >= 1 or name in ('tstatic', 'tdpa')
    if kind == 'word_count':
        return p >= 1 or name == 'tbuild'
    if kind == 'data_float':
        return name not in ('cpa', 'cpa_alt', 'tstatic')
    if kind == 'data_int64':
        return name in subjects.PARTITIONED
    if kind in ('undeclared_hypothesis', 'late_rows'):
        return name == 'tdpa'                        # template-DPA matching refuses hypothesis values that are not declared classes
    if kind == 'huge_value':
        return p >= 1                                # accepted today (inf / nan results): judged only if a tree refuses it
    if kind == 'traces_float16':
        return name in subjects.PARTITIONED          # valid shapes and data, a trace dtype the compiled kernels have no signature for
    if kind == 'dpa_nonbinary':
        return name == 'dpa' and p == 0
    if kind in ('auto_big', 'auto_negative'):
        return name in subjects.PARTITIONED and p == 0
    if kind == 'memory_refused':
        return p == 0
    return False


def cases(tier, seed):
    out = []
    k = 0
    # complete enumeration: subject x kind x k in 1..4 (every position inside the case)
    for name in SUBJECTS:
        for kind in KINDS:
            ks = [kk for kk in (1, 2, 3, 4) if any(applicable(name, kind, p) for p in range(kk + 1))]
            if kind in ('dpa_nonbinary', 'auto_big', 'auto_negative', 'memory_refused'):
                ks = ks[:2] if tier == 'quick' else ks
            elif tier == 'quick' and name in subjects.PARTITIONED:
                ks = [kk for kk in ks if kk in (1, 3)]
            elif tier == 'quick':
                ks = [kk for kk in ks if kk in (2, 4)]
            for kk in ks:
                out.append(dict(gen='dist', subject=name, kind=kind, k=kk, precision=['float32', 'float64'][k % 2], sub=core.subseed('C16', seed, k), must=True))
                k += 1
    # automatic class sets (partitions=None): a refused FIRST call must not leave the class set it estimated behind;
    # the refused batch holds small values (bucket of 9), the accepted ones the whole byte range (bucket of 256)
    for name in subjects.PARTITIONED:
        for kind in ('traces_1d', 'data_float', 'data_int64', 'word_count', 'memory_refused', 'traces_float16'):
            if kind == 'word_count' and name != 'tbuild':
                continue
            out.append(dict(gen='dist', subject=name, kind=kind, k=2, auto=True, precision=['float32', 'float64'][k % 2], sub=core.subseed('C16auto', seed, name, kind), must=True))
            k += 1
    # MIA without explicit bin edges: the window estimated from a refused first batch must not survive the refusal
    for kind in ('rows_mismatch', 'data_none', 'data_list', 'traces_list', 'data_float', 'data_int64', 'memory_refused', 'traces_1d'):
        out.append(dict(gen='dist', subject='mia', kind=kind, k=2, mia_auto=True, precision='float64', sub=core.subseed('C16mia', seed, kind), must=True))
    for j, klass in enumerate(['CPAAttack', 'CPAReverse', 'DPAAttack', 'ANOVAAttack', 'NICVReverse', 'SNRAttack', 'MIAAttack', 'DPAReverse']):
        for akind in ('sf_missing_key', 'model_rejects_dtype', 'other_trace_length', 'rows_differ', 'preprocess_raises', 'run_refused'):
            out.append(dict(gen='analysis', klass=klass, kind=akind, precision=['float32', 'float64'][(j + k) % 2], sub=core.subseed('C16a', seed, klass, akind), must=True))
    for kind in ('tstatic', 'tdpa'):
        out.append(dict(gen='prebuild', subject=kind, precision='float64', sub=core.subseed('C16p', seed, kind), must=True))
    # thorough: random longer histories with several rejections
    rs = np.random.default_rng(core.subseed('C16r', seed))
    n_rand = 60 if tier == 'quick' else 2500
    for j in range(n_rand):
        r = rs.random()
        if r < 0.7:
            out.append(dict(gen='multi', subject=SUBJECTS[int(rs.integers(len(SUBJECTS)))], k=int(rs.integers(2, 8)), nrej=int(rs.integers(2, 6)),
                            precision=['float32', 'float64'][int(rs.integers(2))], sub=int(rs.integers(2 ** 62))))
        elif r < 0.93:
            out.append(dict(gen='analysis', klass=['CPAAttack', 'CPAReverse', 'DPAAttack', 'ANOVAAttack', 'NICVReverse', 'SNRAttack', 'MIAAttack', 'DPAReverse',
                                                    'ANOVAReverse', 'NICVAttack', 'SNRReverse', 'MIAReverse'][int(rs.integers(12))],
                            kind=['sf_missing_key', 'model_rejects_dtype', 'other_trace_length', 'rows_differ', 'preprocess_raises', 'run_refused'][int(rs.integers(6))],
                            precision=['float32', 'float64'][int(rs.integers(2))], sub=int(rs.integers(2 ** 62))))
        else:
            out.append(dict(gen='prebuild', subject=['tstatic', 'tdpa'][int(rs.integers(2))], precision=['float32', 'float64'][int(rs.integers(2))], sub=int(rs.integers(2 ** 62))))
    return out


# ---------------------------------------------------------------------------------------------------------
def _composition(rng, n, k):
    cuts = sorted(rng.choice(np.arange(1, n), size=k - 1, replace=False).tolist()) if k > 1 else []
    e = [0] + cuts + [n]
    return [b - a for a, b in zip(e[:-1], e[1:])]


def _bad_call(kind, tr, d, rng, name):
    """(traces, data, context manager factory) of a call that the distinguisher is expected to refuse."""
    m = len(tr)
    d2 = None if d is None else np.asarray(d).reshape(m, -1)
    if kind == 'undeclared_hypothesis':
        # one hypothesis value that is no declared class, for a candidate other than the first when there are several
        dd = np.array(d, copy=True)
        flat = dd.reshape(m, -1)
        flat[int(rng.integers(m)), int(rng.integers(1, flat.shape[1])) if flat.shape[1] > 1 else 0] = 200
        return tr, dd
    if kind == 'late_rows':
        # a batch of tens of thousands of traces (longer than any plausible internal slice) whose LAST rows only carry the offending value
        big = int(rng.choice([33000, 40000, 70000]))
        reps = -(-big // m)
        btr = np.tile(tr, (reps, 1))[:big]
        dd = np.tile(d, (reps,) + (1,) * (np.ndim(d) - 1))[:big].copy()
        dd.reshape(big, -1)[-int(rng.integers(1, 60)):, -1] = 200
        return btr, dd
    if kind == 'traces_list':
        return tr.tolist(), d
    if kind == 'data_list':
        return tr, d.tolist()
    if kind == 'data_none':
        return tr, None
    if kind == 'rows_mismatch':
        return tr, np.concatenate([d, d[:1]])
    if kind == 'traces_1d':
        return np.ascontiguousarray(tr[:, 0]), d
    if kind == 'traces_3d':
        return np.ascontiguousarray(np.repeat(tr[:, :, None], 2, axis=2)), d
    if kind == 'huge_value':
        big = tr.astype('float64')
        big[-1, -1] = 1e30
        return big, d
    if kind == 'trace_len':
        return np.concatenate([tr, tr[:, :1]], axis=1), d
    if kind == 'word_count':
        return tr, np.concatenate([d2, d2[:, :1]], axis=1)
    if kind == 'data_float':
        return tr, d.astype('float64')
    if kind == 'data_int64':
        return tr, d.astype('int64')
    if kind == 'traces_float16':
        return (tr.astype('float16') if rng.random() < 0.5 else tr.astype('>f4')), d
    if kind == 'dpa_nonbinary':
        dd = d.copy()
        dd.reshape(-1)[0] = 2
        return tr, dd
    if kind == 'auto_big':
        dd = d.astype('uint16')
        dd.reshape(-1)[-1] = 300
        return tr, dd
    if kind == 'auto_negative':
        dd = d.astype('int16')
        dd.reshape(-1)[-1] = -1
        return tr, dd
    if kind == 'memory_refused':
        return tr, d
    raise ValueError(kind)


class _NoMemory:
    """Makes the memory check of DistinguisherMixin._check refuse (psutil reports nothing available)."""

    def __init__(self, on):
        self.on = on

    def __enter__(self):
        if self.on:
            from scared.distinguishers import base
            self._orig = base.psutil.virtual_memory
            base.psutil.virtual_memory = lambda: types.SimpleNamespace(available=0)

    def __exit__(self, *a):
        if self.on:
            from scared.distinguishers import base
            base.psutil.virtual_memory = self._orig


def _observe(obj, spec):
    return subjects.results(obj, spec)


def _same_results(t, name, ra, rb, mech, info):
    for (la, a), (lb, b) in zip(ra, rb):
        if tol.same(a, b):
            t.check(True, mech)
            continue
        if name in ('tstatic', 'tdpa'):
            # BLAS products on float data: bit equality is expected but not guaranteed across buffers
            t.count('template_rounding_diff')
            rt = 1e-6 if np.asarray(a).dtype == np.float32 else 1e-13
            ok = np.shape(a) == np.shape(b) and bool(np.all(np.abs(np.asarray(a, float) - np.asarray(b, float)) <= rt * (1 + np.abs(10 - np.asarray(b, float)))))
            t.check(ok, mech, lambda: dict(info, label=la, diff=tol.first_diff(a, b)))
        else:
            t.check(False, mech, lambda: dict(info, label=la, diff=tol.first_diff(a, b)))


def _fresh_compute_behaviour(obj, spec):
    try:
        obj.compute()
        return 'returned'
    except Exception as e:
        return type(e).__name__


def _workload(case, rng, auto=False):
    c = dict(case, regime='R' if case['subject'] in ('tstatic', 'tdpa') else 'E')
    for _ in range(50):
        spec, traces, data, n, T, ws, tdtype = c01._workload(c, rng)
        if n >= max(5, case.get('k', 1) + 1) and n <= 150:
            break
    else:
        raise core.Inconclusive('no workload of a suitable size')
    if auto == 'wide':
        spec['partitions'] = None
        data = rng.integers(0, 256, data.shape).astype('uint8')
        data.reshape(data.shape[0], -1)[:, 0] = rng.integers(100, 256, data.shape[0])      # every batch reaches the 256-value bucket
    elif auto:
        spec['partitions'] = None
        data = rng.integers(0, 9, data.shape).astype('uint8')
        data.reshape(-1)[0] = 8
    return spec, traces, data, n, T, ws, tdtype


def _reference(t, spec, traces, data, sizes, kseq):
    obj = subjects.make(spec)
    if kseq is not None:
        CONTROL.force(obj, list(kseq))
    ref = []
    pos = 0
    for s in sizes:
        subjects.update(obj, spec, traces[pos:pos + s], data[pos:pos + s])
        pos += s
        ref.append((int(obj.processed_traces), _observe(obj, spec)))
    return ref


def run_dist(case):
    t = core.Tally()
    for c in REQUIRED_COUNTERS:
        t.count(c, 0)
    rng = gen.rng_of(case['sub'])
    name, kind, k = case['subject'], case['kind'], case['k']
    auto = 'wide' if case.get('auto') else kind in ('auto_big', 'auto_negative')
    spec, traces, data, n, T, ws, tdtype = _workload(case, rng, auto=auto)
    sizes = _composition(rng, n, k)
    if case.get('mia_auto'):
        spec.pop('bin_edges', None)
        spec['bins_number'] = int(rng.choice([4, 8, 16]))
        # batches with clearly different ranges: the refused batch (rows taken anywhere) does not span the window of the first accepted one
        if sizes[0] < 2:
            j_ = int(np.argmax(sizes))
            if sizes[j_] < 2 or j_ == 0:
                r = core.held(0, nontrivial=False, counters=dict(t.counters, generator_rejected_first_batch_too_short=1))
                r['metrics'] = {}
                return r
            sizes[0] += 1
            sizes[j_] -= 1
        traces = np.array(traces, copy=True)
        if traces.dtype.kind in 'iu':
            traces = traces.astype('int16')               # signed, so that the window of the first batch can be placed at will
            tdtype = 'int16'
        traces[:sizes[0]] = np.clip(traces[:sizes[0]], -20, 20)
        traces[0, :], traces[1, :] = -20, 20
        t.count('mia_automatic_window_cases')
    kern = name in ('anova', 'nicv', 'snr', 'tbuild')
    kseq = [int(v) for v in rng.integers(0, 2, k)] if kern else None
    info = dict(subject=name, kind=kind, k=k, precision=case['precision'], n=n, T=T, ws=list(ws), tdtype=tdtype, sizes=sizes, partitions=spec.get('partitions'))
    ref = _reference(t, spec, traces, data, sizes, kseq)
    fresh = _fresh_compute_behaviour(subjects.make(spec), spec) if name not in ('tstatic', 'tdpa') else 'DistinguisherError'
    judged = 0
    for p in range(k + 1):
        if not applicable(name, kind, p):
            continue
        inf = dict(info, position=p, automatic_partitions=bool(case.get('auto')))
        obj = subjects.make(spec)
        if kseq is not None:
            CONTROL.force(obj, list(kseq))
        pos = 0
        for s in sizes[:p]:
            subjects.update(obj, spec, traces[pos:pos + s], data[pos:pos + s])
            pos += s
        m = int(rng.integers(1, 5))
        src = int(rng.integers(0, n - m + 1))
        bsrc = data[src:src + m]
        if case.get('auto'):
            bsrc = (bsrc % 8).astype(bsrc.dtype)       # the refused batch alone would select the 9-value class set
            if p != 0:
                continue                               # the class set is frozen by the first accepted batch afterwards
            t.count('auto_partition_first_call_rejections')
        btr, bd = _bad_call(kind, traces[src:src + m], bsrc, rng, name)
        if p == 0 and kind in ('traces_float16', 'data_float', 'data_int64', 'memory_refused') and isinstance(btr, np.ndarray) and btr.ndim == 2 and name not in ('tstatic', 'tdpa') \
                and rng.random() < 0.5:
            # a refused FIRST call fixes nothing: the refused batch may well have another trace length than the batches accepted afterwards
            btr = np.ascontiguousarray(np.concatenate([btr, btr[:, :1]], axis=1))
            t.count('refused_first_call_with_other_trace_length')
        raised = None
        with _NoMemory(kind == 'memory_refused'):
            try:
                obj.update(btr, bd)
            except Exception as e:
                raised = type(e).__name__
        if raised is None:
            t.count('accepted_unexpectedly')
            t.count(f'accepted_unexpectedly:{name}:{kind}')
            continue
        judged += 1
        t.count('rejections_observed')
        t.count('rejections_first_call' if p == 0 else 'rejections_later_call')
        t.count(f'raised:{raised}')
        expected_count = ref[p - 1][0] if p else 0
        t.count('state_after_rejection_compared')
        t.check(int(obj.processed_traces) == expected_count, 'rejected_call_changed_processed_traces',
                lambda: dict(inf, raised=raised, processed_traces=int(obj.processed_traces), expected=expected_count))
        if p == 0:
            got = _fresh_compute_behaviour(obj, spec)
            t.check(got == fresh, 'refused_first_call_left_state_behind', lambda: dict(inf, raised=raised, compute_now=got, compute_of_fresh_object=fresh))
        else:
            try:
                _same_results(t, name, _observe(obj, spec), ref[p - 1][1], 'rejected_call_changed_results', dict(inf, raised=raised))
            except Exception as e:
                t.check(False, 'compute_fails_after_rejected_call', dict(inf, raised=raised, error=repr(e)[:300]))
        for j in range(p, k):
            s = sizes[j]
            try:
                subjects.update(obj, spec, traces[pos:pos + s], data[pos:pos + s])
            except Exception as e:
                t.check(False, 'valid_call_refused_after_rejected_call', dict(inf, raised=raised, later_batch=j, error=repr(e)[:300]))
                break
            pos += s
            t.count('later_results_compared')
            t.check(int(obj.processed_traces) == ref[j][0], 'count_differs_after_rejected_call',
                    lambda: dict(inf, raised=raised, after_batch=j, processed_traces=int(obj.processed_traces), expected=ref[j][0]))
            try:
                _same_results(t, name, _observe(obj, spec), ref[j][1], 'later_results_differ_after_rejected_call', dict(inf, raised=raised, after_batch=j))
            except Exception as e:
                t.check(False, 'compute_fails_after_rejected_call', dict(inf, raised=raised, after_batch=j, error=repr(e)[:300]))
                break
    if judged == 0:
        r = core.held(0, nontrivial=False, counters=t.counters, notes=['every call of this kind was accepted silently (not judged)'])
        r['metrics'] = {}
        return r
    return t.result(sig=f"{name}|{kind}|{k}|{case['precision']}|{tdtype}|{n}x{T}|{ws}|{case.get('auto')}", sample=dict(case=case, derived=info, positions_judged=judged, comparisons=t.checks))


def run_multi(case):
    """Longer histories with several rejections of random kinds at random positions."""
    t = core.Tally()
    for c in REQUIRED_COUNTERS:
        t.count(c, 0)
    rng = gen.rng_of(case['sub'])
    name, k = case['subject'], case['k']
    spec, traces, data, n, T, ws, tdtype = _workload(case, rng)
    k = min(k, n)
    sizes = _composition(rng, n, k)
    kern = name in ('anova', 'nicv', 'snr', 'tbuild')
    kseq = [int(v) for v in rng.integers(0, 2, k)] if kern else None
    ref = _reference(t, spec, traces, data, sizes, kseq)
    obj = subjects.make(spec)
    if kseq is not None:
        CONTROL.force(obj, list(kseq))
    plan = sorted(int(v) for v in rng.integers(0, k + 1, case['nrej']))
    info = dict(subject=name, k=k, precision=case['precision'], n=n, T=T, ws=list(ws), tdtype=tdtype, sizes=sizes, rejections_at=plan)
    pos = 0
    hist = []
    for j in range(k + 1):
        for p in [q for q in plan if q == j]:
            kinds = [kd for kd in KINDS if applicable(name, kd, j) and kd not in ('auto_big', 'auto_negative')]
            kind = kinds[int(rng.integers(len(kinds)))]
            m = int(rng.integers(1, 5))
            src = int(rng.integers(0, n - m + 1))
            btr, bd = _bad_call(kind, traces[src:src + m], data[src:src + m], rng, name)
            raised = None
            with _NoMemory(kind == 'memory_refused'):
                try:
                    obj.update(btr, bd)
                except Exception as e:
                    raised = type(e).__name__
            hist.append((j, kind, raised))
            if raised is None:
                t.count('accepted_unexpectedly')
                r = core.held(t.checks, nontrivial=False, counters=t.counters, notes=['history abandoned: a call was accepted silently'])
                r['metrics'] = {}
                return r if t.violation is None else t.result()
            t.count('rejections_observed')
            t.count('rejections_first_call' if j == 0 else 'rejections_later_call')
            t.count('state_after_rejection_compared')
            t.check(int(obj.processed_traces) == (ref[j - 1][0] if j else 0), 'rejected_call_changed_processed_traces',
                    lambda: dict(info, history=hist, processed_traces=int(obj.processed_traces)))
        if j == k:
            break
        s = sizes[j]
        try:
            subjects.update(obj, spec, traces[pos:pos + s], data[pos:pos + s])
        except Exception as e:
            t.check(False, 'valid_call_refused_after_rejected_call', dict(info, history=hist, later_batch=j, error=repr(e)[:300]))
            return t.result()
        pos += s
        t.count('later_results_compared')
        t.check(int(obj.processed_traces) == ref[j][0], 'count_differs_after_rejected_call', lambda: dict(info, history=hist, after_batch=j, processed_traces=int(obj.processed_traces)))
        _same_results(t, name, _observe(obj, spec), ref[j][1], 'later_results_differ_after_rejected_call', dict(info, history=hist, after_batch=j))
    return t.result(sig=f"multi|{name}|{k}|{plan}|{case['precision']}|{tdtype}", sample=dict(case=case, derived=info, history=hist))


# ---------------------------------------------------------------------------------------------------------
# analysis level

def _make_analysis(klass, prec, G, parts_hw=True, edges=None, conv=None):
    import scared
    K = getattr(scared, klass)
    attack = klass.endswith('Attack')
    if attack:
        @scared.attack_selection_function(guesses=range(G))
        def sf(v, guesses):
            out = np.empty((v.shape[0], len(guesses), v.shape[1]), dtype='uint8')
            for i, g in enumerate(guesses):
                out[:, i, :] = v ^ g
            return out
    else:
        @scared.reverse_selection_function
        def sf(v):
            return v ^ 0x5a
    kw = dict(selection_function=sf, precision=prec)
    if attack and conv:
        kw['convergence_step'] = conv
    if klass.startswith('DPA'):
        kw['model'] = scared.Monobit(int(G % 8))
    else:
        kw['model'] = scared.HammingWeight()
    if attack:
        kw['discriminant'] = scared.maxabs
    if klass[:3] in ('ANO', 'NIC', 'SNR', 'MIA'):
        kw['partitions'] = list(range(9))
    if klass.startswith('MIA'):
        kw['bin_edges'] = np.linspace(-40, 40, 9)
    return K(**kw)


def _observe_analysis(a):
    out = [('results', np.array(a.results))]
    if hasattr(a, 'scores') and a.scores is not None:
        out.append(('scores', np.array(a.scores)))
    if getattr(a, 'convergence_step', None):
        ct = getattr(a, 'convergence_traces', None)
        out.append(('convergence_traces', np.zeros((0,)) if ct is None else np.array(ct)))
    return out


def run_analysis(case):
    import scared
    t = core.Tally()
    for c in REQUIRED_COUNTERS:
        t.count(c, 0)
    rng = gen.rng_of(case['sub'])
    klass, kind, prec = case['klass'], case['kind'], case['precision']
    N = int(rng.integers(6, 60))
    T = int(rng.integers(2, 7))
    W = int(rng.integers(1, 4))
    G = int(rng.integers(2, 6))
    bs = int(rng.integers(1, max(2, N // 2)))
    samples = rng.integers(-30, 31, (N, T)).astype(['int8', 'int16', 'float32', 'float64'][int(rng.integers(4))])
    v = rng.integers(0, 256, (N, W)).astype('uint8')
    ths = scared.traces.read_ths_from_ram(samples=samples, v=v)
    info = dict(klass=klass, kind=kind, precision=prec, N=N, T=T, W=W, G=G, batch=bs, dtype=str(samples.dtype))
    nb = -(-N // bs)
    forced = klass[:3] in ('ANO', 'NIC', 'SNR')
    kseq = [int(x) for x in rng.integers(0, 2, nb + 2)]

    conv = int(rng.choice([1, 2, 3, 5, 8])) if (rng.random() < 0.4 and kind != 'preprocess_raises') or kind == 'run_refused' else None
    if kind == 'preprocess_raises' and klass.endswith('Attack') and rng.random() < 0.6:
        conv = int(rng.choice([1, 2, 3, 5]))          # a run with convergence points interrupted in its middle
    info['convergence_step'] = conv

    def fresh():
        a = _make_analysis(klass, prec, G, conv=conv)
        if forced:
            CONTROL.force(a, list(kseq))
        return a

    if kind == 'run_refused':
        # an accepted run(), then a run() that is refused at its first batch (container with another trace length), then a last accepted run():
        # everything a user can read - counts, results, scores, convergence traces - is that of the accepted runs only
        m1 = int(rng.integers(1, N - 1)) if N > 2 else 1
        bad = scared.traces.read_ths_from_ram(samples=np.concatenate([samples[:3], samples[:3, :1]], axis=1), v=v[:3])
        try:
            scared.set_batch_size(bs)
            twin = fresh()
            twin.run(scared.Container(ths[:m1]))
            a = fresh()
            a.run(scared.Container(ths[:m1]))
            before_obs = _observe_analysis(a)
            raised = None
            try:
                a.run(scared.Container(bad))
            except Exception as e:
                raised = type(e).__name__
            if raised is None:
                t.count('accepted_unexpectedly')
                r = core.held(0, nontrivial=False, counters=t.counters)
                r['metrics'] = {}
                return r
            t.count('analysis_run_interruptions')
            t.count('rejections_observed')
            t.count('rejections_later_call')
            t.count('state_after_rejection_compared')
            t.check(int(a.processed_traces) == m1, 'rejected_call_changed_processed_traces', lambda: dict(info, raised=raised, processed_traces=int(a.processed_traces)))
            _same_results(t, klass, _observe_analysis(a), before_obs, 'rejected_call_changed_results', dict(info, raised=raised, first_run=m1))
            if N - m1 >= 1:
                a.run(scared.Container(ths[m1:]))
                twin.run(scared.Container(ths[m1:]))
                t.count('later_results_compared')
                _same_results(t, klass, _observe_analysis(a), _observe_analysis(twin), 'later_results_differ_after_rejected_call', dict(info, raised=raised, first_run=m1))
        finally:
            scared.set_batch_size(None)
        return t.result(sig=f"{klass}|{kind}|{N}|{bs}|{m1}|{conv}|{prec}", sample=dict(case=case, derived=info))
    if kind == 'preprocess_raises':
        j = int(rng.integers(0, nb))
        state = dict(armed=False, calls=0, fail_at=j)

        @scared.preprocess
        def spy(traces):
            if state['armed']:
                c = state['calls']
                state['calls'] += 1
                if c == state['fail_at']:
                    raise RuntimeError('injected preprocess failure')
            return traces

        info['fail_at_batch'] = j
        try:
            scared.set_batch_size(bs)
            # reference: uninterrupted run with the same batches
            full = fresh()
            full.run(scared.Container(ths, preprocesses=[spy]))
            a = fresh()
            cont = scared.Container(ths, preprocesses=[spy])
            cont.batch_size                       # evaluates (and caches) the trace size probe before arming
            state['armed'] = True
            raised = None
            try:
                a.run(cont)
            except RuntimeError as e:
                raised = repr(e)
            state['armed'] = False
            if raised is None and conv is not None and state['calls'] <= state['fail_at']:
                # with a convergence step the batches are longer than the configured length: the run had fewer batches than the failing position
                r = core.held(0, nontrivial=False, counters=dict(t.counters, generator_rejected_failing_batch_beyond_the_run=1))
                r['metrics'] = {}
                return r
            t.count('analysis_run_interruptions')
            t.check(raised is not None, 'preprocess_failure_swallowed_by_run', info)
            done = int(a.processed_traces)
            if conv is None:
                t.check(done == j * bs, 'interrupted_run_count_wrong', lambda: dict(info, processed_traces=done, expected=j * bs))
            else:
                # the batch length is derived from the convergence step: the accepted prefix is whatever was counted, a whole number of batches
                t.check(0 <= done <= N and (j == 0) == (done == 0), 'interrupted_run_count_wrong', lambda: dict(info, processed_traces=done, failed_batch=j))
                # convergence columns present right after the interruption: only columns that the accepted batches produced
                ct = getattr(a, 'convergence_traces', None)
                ncols = 0 if ct is None else int(np.shape(ct)[-1])
                pc, npc = None, 0
                if done >= 1:
                    pre_c = fresh()
                    pre_c.run(scared.Container(ths[:done]))
                    pc = pre_c.convergence_traces
                    npc = 0 if pc is None else int(np.shape(pc)[-1])
                t.count('convergence_columns_after_interrupted_run', ncols)
                okc = ncols <= npc and (ncols == 0 or tol.same(np.array(ct), np.array(pc)[..., :ncols]))
                t.check(okc, 'interrupted_run_left_convergence_columns_that_no_accepted_batch_produced',
                        lambda: dict(info, processed_traces=done, columns=ncols, columns_of_a_run_on_the_accepted_traces=npc))

            def no_conv(obs):
                return [(la, x) for la, x in obs if la != 'convergence_traces' or conv is None]
            if done >= 1:
                pre = fresh()
                pre.run(scared.Container(ths[:done]))
                a.compute_results()
                _same_results(t, klass, no_conv(_observe_analysis(a)), no_conv(_observe_analysis(pre)), 'interrupted_run_differs_from_accepted_batches', info)
            a.run(scared.Container(ths[done:], preprocesses=[spy]))
            t.check(int(a.processed_traces) == N, 'count_differs_after_rejected_call', lambda: dict(info, processed_traces=int(a.processed_traces)))
            t.count('later_results_compared')
            _same_results(t, klass, no_conv(_observe_analysis(a)), no_conv(_observe_analysis(full)), 'resumed_run_differs_from_uninterrupted_run', info)
        finally:
            scared.set_batch_size(None)
        return t.result(sig=f"{klass}|{kind}|{N}|{bs}|{j}|{prec}", sample=dict(case=case, derived=info))

    # process()-level rejections inserted at every position of the batch sequence (<= 5 batches judged)
    cont = scared.Container(ths)
    batches = list(cont.batches(batch_size=bs))[:5]
    k = len(batches)
    ref_obj = fresh()
    ref = []
    for b in batches:
        ref_obj.process(b)
        ref_obj.compute_results()
        ref.append((int(ref_obj.processed_traces), _observe_analysis(ref_obj)))
    m = int(rng.integers(1, 4))
    if kind == 'sf_missing_key':
        bad = scared.traces.read_ths_from_ram(samples=samples[:m], w=v[:m])
        positions = [0]                           # later positions would silently reuse the cached metadata (not a refusal)
    elif kind == 'model_rejects_dtype':
        bad = scared.traces.read_ths_from_ram(samples=samples[:m], v=v[:m].astype('int16'))
        positions = list(range(k + 1))
    elif kind == 'other_trace_length':
        bad = scared.traces.read_ths_from_ram(samples=np.concatenate([samples[:m], samples[:m, :1]], axis=1), v=v[:m])
        positions = list(range(1, k + 1))
    elif kind == 'rows_differ':
        bad = None
        positions = list(range(k + 1))
    else:
        raise ValueError(kind)
    judged = 0
    for p in positions:
        inf = dict(info, position=p)
        a = fresh()
        for b in batches[:p]:
            a.process(b)
        raised = None
        try:
            if kind == 'rows_differ':
                a.update(traces=samples[:m + 1], data=a.compute_intermediate_values(ths[:m].metadatas))
            else:
                a.process(scared.Container(bad).batches(batch_size=m)[0])
        except Exception as e:
            raised = type(e).__name__
        if raised is None:
            t.count('accepted_unexpectedly')
            continue
        judged += 1
        t.count('analysis_process_rejections')
        t.count('rejections_observed')
        t.count('rejections_first_call' if p == 0 else 'rejections_later_call')
        t.count(f'raised:{raised}')
        t.count('state_after_rejection_compared')
        t.check(int(a.processed_traces) == (ref[p - 1][0] if p else 0), 'rejected_call_changed_processed_traces',
                lambda: dict(inf, raised=raised, processed_traces=int(a.processed_traces)))
        if p:
            a.compute_results()
            _same_results(t, klass, _observe_analysis(a), ref[p - 1][1], 'rejected_call_changed_results', dict(inf, raised=raised))
        for j in range(p, k):
            try:
                a.process(batches[j])
                a.compute_results()
            except Exception as e:
                t.check(False, 'valid_call_refused_after_rejected_call', dict(inf, raised=raised, later_batch=j, error=repr(e)[:300]))
                break
            t.count('later_results_compared')
            t.check(int(a.processed_traces) == ref[j][0], 'count_differs_after_rejected_call', lambda: dict(inf, raised=raised, after_batch=j))
            _same_results(t, klass, _observe_analysis(a), ref[j][1], 'later_results_differ_after_rejected_call', dict(inf, raised=raised, after_batch=j))
    if judged == 0:
        r = core.held(0, nontrivial=False, counters=t.counters, notes=['accepted silently'])
        r['metrics'] = {}
        return r
    return t.result(sig=f"{klass}|{kind}|{N}|{bs}|{prec}", sample=dict(case=case, derived=info, positions_judged=judged))


def run_prebuild(case):
    """run() before build() is refused; build() and run() afterwards behave as on an attack that never saw it."""
    import scared
    t = core.Tally()
    for c in REQUIRED_COUNTERS:
        t.count(c, 0)
    rng = gen.rng_of(case['sub'])
    c = dict(case, regime='R', subject=case['subject'])
    spec, traces, data, n, T, ws, tdtype = c01._workload(c, rng)
    name = case['subject']
    b = spec['build']
    bsamples = np.array(b['samples'], dtype='float64')
    bvalues = np.array(b['values'], dtype='uint8').reshape(-1, 1)

    @scared.reverse_selection_function
    def rsf(v):
        return v

    G = spec.get('guesses', 4)

    @scared.attack_selection_function(guesses=range(G), words=0)
    def asf(h, guesses):
        return h[:, :, None]

    def new():
        cb = scared.Container(scared.traces.read_ths_from_ram(samples=bsamples, v=bvalues))
        if name == 'tstatic':
            return scared.TemplateAttack(container_building=cb, reverse_selection_function=rsf, model=scared.Value(), partitions=spec['partitions'], precision=case['precision'])
        return scared.TemplateDPAAttack(container_building=cb, reverse_selection_function=rsf, selection_function=asf, model=scared.Value(),
                                        partitions=spec['partitions'], precision=case['precision'])

    if name == 'tdpa':
        mths = scared.traces.read_ths_from_ram(samples=np.asarray(traces), h=np.asarray(data).reshape(n, -1))
    else:
        mths = scared.traces.read_ths_from_ram(samples=np.asarray(traces), h=np.asarray(data).reshape(n, -1))
    info = dict(subject=name, precision=case['precision'], n=n, T=T, tdtype=tdtype)
    clean = new()
    clean.build()
    clean.run(scared.Container(mths))
    a = new()
    times = int(rng.integers(1, 4))
    for _ in range(times):
        raised = None
        try:
            a.run(scared.Container(mths))
        except Exception as e:
            raised = type(e).__name__
        t.count('template_run_before_build')
        t.check(raised == 'DistinguisherError', 'matching_before_build_not_refused', dict(info, raised=raised))
        t.count('rejections_observed')
        t.count('rejections_first_call')
        t.count('state_after_rejection_compared')
        t.check(int(a.processed_traces) == 0, 'rejected_call_changed_processed_traces', lambda: dict(info, processed_traces=int(a.processed_traces)))
    try:
        a.build()
        a.run(scared.Container(mths))
    except Exception as e:
        t.check(False, 'valid_call_refused_after_rejected_call', dict(info, error=repr(e)[:300]))
        return t.result()
    t.count('later_results_compared')
    t.check(int(a.processed_traces) == n, 'count_differs_after_rejected_call', lambda: dict(info, processed_traces=int(a.processed_traces)))
    _same_results(t, name, [('scores', np.array(a.scores))], [('scores', np.array(clean.scores))], 'later_results_differ_after_rejected_call', info)
    return t.result(sig=f"prebuild|{name}|{case['precision']}|{n}|{T}|{times}", sample=dict(case=case, derived=info))


def run_case(case):
    g = case['gen']
    if g == 'dist':
        return run_dist(case)
    if g == 'multi':
        return run_multi(case)
    if g == 'analysis':
        return run_analysis(case)
    if g == 'prebuild':
        return run_prebuild(case)
    raise ValueError(g)
