"""C01 - incremental distinguishers are invariant to how traces are split into batches; compute() is
transparent and idempotent.

Twin executions of the *real* classes over recorded histories:
  A  one update with everything                                  (reference execution)
  B  the same rows as a sequence of non-empty batches           R1: results(B) == results(A)
  C  as B with compute() inserted at a set of gaps              R2: results(C) == results(B), and each
     intermediate compute() == a fresh one-shot on the prefix
  R3 compute() twice in a row returns the same arrays
  shadow invariant: processed_traces == accepted rows after every update
Exact regime: bit equality.  Rounding regime: the forward bound of DESIGN section 4.
"""
import itertools

import numpy as np

from .. import core, gen, subjects, tol
from ..monitors import CONTROL, CountedSubject

ID = 'C01'
LEVEL = 'exploration'
WORKERS = {'quick': 8, 'thorough': 14}
BUDGET_S = {'quick': 100, 'thorough': 600}
REQUIRED_COUNTERS = ['histories', 'split_vs_oneshot', 'compute_transparency', 'compute_idempotence', 'shadow_count_checks', 'prefix_computes']
RULE = ('a case = (subject in 11 distinguishers, precision, regime E|R, n, samples, word shape, trace dtype, memory layout, ordered '
        'split of the rows, set of gaps where compute() is inserted (all subsets for <= 4 batches on the cheap subjects, all-gaps / '
        'random subsets otherwise), sub-seed); non-trivial = the split has >= 2 batches or at least one inserted compute; distinct '
        'by (subject, precision, regime, dtype, shape, split, placement)')
ASSUMPTIONS = ['in the exact regime every accumulated sum is an integer exactly representable in the precision, so any summation order is '
               'bit-identical and compute() is a deterministic function of the accumulators',
               'rounding-regime tolerance = 16*n*eps*scale with the first-order scale computed by vf.oracles (section 4)',
               'automatic class sets are avoided (explicit partitions): they are frozen from the first batch by design']

CHEAP = ['cpa', 'cpa_alt', 'dpa', 'ttacc']


def cases(tier, seed):
    out = []
    rs = np.random.default_rng(core.subseed('C01', seed))
    k = 0
    # deciding grid: every subject x precision x regime (E where it exists)
    for name in subjects.SUBJECTS:
        for prec in ('float32', 'float64'):
            regimes = ['R'] if name in ('tstatic', 'tdpa') else ['E', 'R']
            for regime in regimes:
                out.append(dict(gen='hist', subject=name, precision=prec, regime=regime, sub=core.subseed('C01g', seed, k), must=True,
                                placements='subsets' if name in CHEAP else 'allgaps', prefix=True))
                k += 1
    # batches of more than a megabyte of samples (hundreds of samples x thousands of traces) against the same traces in short batches
    for j, name in enumerate(('anova', 'snr', 'nicv', 'cpa', 'dpa', 'mia', 'ttacc') if tier == 'quick' else ('anova', 'snr', 'nicv', 'cpa', 'dpa', 'mia', 'ttacc', 'cpa_alt', 'anova', 'snr', 'tbuild')):
        out.append(dict(gen='hist', subject=name, precision='float64', regime='E', bigframe=True, sub=core.subseed('C01bf', seed, j), must=True, placements='allgaps', prefix=False))
    for j, name in enumerate(('cpa', 'dpa', 'anova', 'snr', 'mia', 'ttacc', 'tbuild', 'nicv')):
        out.append(dict(gen='hist', subject=name, precision=['float32', 'float64'][j % 2], regime='E', mixedtypes=True, sub=core.subseed('C01mx', seed, j), must=True, placements='allgaps', prefix=False))
    n_rand = 220 if tier == 'quick' else 9000
    weights = np.array([4 if s in CHEAP else 1 for s in subjects.SUBJECTS], dtype=float)
    weights /= weights.sum()
    for j in range(n_rand):
        name = subjects.SUBJECTS[int(rs.choice(len(subjects.SUBJECTS), p=weights))]
        regime = 'R' if name in ('tstatic', 'tdpa') else ('E' if rs.random() < 0.7 else 'R')
        out.append(dict(gen='hist', subject=name, precision=['float32', 'float64'][int(rs.integers(2))], regime=regime,
                        sub=int(rs.integers(2 ** 62)), placements=['subsets', 'allgaps', 'random'][int(rs.integers(3))] if name in CHEAP else ['allgaps', 'random'][int(rs.integers(2))],
                        prefix=bool(rs.random() < (0.5 if name in CHEAP else 0.2))))
    return out


def setup():
    import scared  # noqa: F401
    if not CONTROL.install():
        raise core.Inconclusive('kernel-choice hook not available (SCARED_VERIF hook missing in this tree)')


def _workload(case, rng):
    """traces, data, subject spec for the case."""
    name, prec, regime = case['subject'], case['precision'], case['regime']
    n = gen.pick_n(rng, [1, 2, 3, 5, 8, 13, 30, 60, 150, 400, 600, 1100]) if name in CHEAP else gen.pick_n(rng, [2, 3, 5, 9, 20, 45, 120], hi=260)
    T = int(rng.integers(1, 13)) if name not in ('tbuild', 'tstatic', 'tdpa') else int(rng.integers(1, 6))
    ws = gen.WORD_SHAPES[int(rng.integers(len(gen.WORD_SHAPES)))]
    spec = dict(name=name, precision=prec)
    tdtype = gen.TRACE_DTYPES[int(rng.integers(len(gen.TRACE_DTYPES)))]
    if case.get('bigframe'):
        n, T = int(rng.choice([1200, 2500])), (int(rng.choice([150, 300])) if name != 'tbuild' else 12)
        ws = [(), (2,)][int(rng.integers(2))]
        tdtype = ['float64', 'int32', 'int64', 'float32'][int(rng.integers(4))]
    data = None
    ymax = 1
    if name in ('cpa', 'cpa_alt'):
        ymax = int(rng.choice([1, 8, 16, 255]))
        if regime == 'E':
            import math
            ymax = max(1, min(ymax, math.isqrt((gen.LIMIT[prec] - 1) // n)))
        ddt = ['uint8', 'uint16', 'int16', 'uint32', 'float32', 'int64'][int(rng.integers(6))]
        data = rng.integers(0, ymax + 1, gen.data_shape(n, ws)).astype(ddt)
    elif name == 'dpa':
        data = rng.integers(0, 2, gen.data_shape(n, ws)).astype('uint8')
        if rng.random() < 0.15:
            data[..., 0] = 0 if ws else data[..., 0]
    elif name in subjects.PARTITIONED:
        K = int(rng.choice([2, 3, 9, 10, 17]))
        if name == 'tbuild':
            ws = [(), (1,)][int(rng.integers(2))]
            K = int(rng.choice([2, 3, 5, 10]))
        base = int(rng.choice([0, 0, 3, 250]))
        parts = (base + rng.permutation(K + 2)[:K]).tolist()
        spec['partitions'] = [int(v) for v in parts]
        ddt = subjects.DATA_DTYPES_LUT[int(rng.integers(6))]
        if max(parts) > np.iinfo(ddt).max:
            ddt = 'int32'
        data = rng.choice(parts, gen.data_shape(n, ws)).astype(ddt)
        if rng.random() < 0.3:
            # some traces carry a value that is not a class value: they must be ignored whatever the batching / kernel
            foreign = max(parts) + 1 + int(rng.integers(0, 5))
            if foreign <= np.iinfo(ddt).max:
                data = np.where(rng.random(data.shape) < 0.15, np.array(foreign, dtype=ddt), data).astype(ddt)
    elif name in ('tstatic', 'tdpa'):
        K = int(rng.choice([2, 3, 5]))
        parts = list(range(K))
        spec['partitions'] = parts
        nb = K * (T + 6)
        bvals = np.tile(np.arange(K), T + 6)
        means = rng.integers(-20, 21, (K, T))
        bsamples = means[bvals] + rng.normal(0, 2, (nb, T))
        spec['build'] = dict(samples=np.round(bsamples * 4).tolist(), values=bvals.tolist(), dtype='float64')
        spec['means'] = (means * 4).tolist()
        if name == 'tdpa':
            G = int(rng.integers(2, 6))
            spec['guesses'] = G
            data = rng.integers(0, K, (n, G, 1)).astype('uint8')
        else:
            data = rng.integers(0, 255, (n, 1)).astype('uint8')
        tdtype = ['float32', 'float64', 'int16'][int(rng.integers(3))]
    if name == 'mia':
        nb = int(rng.choice([2, 4, 8, 16]))
        spec['bin_edges'] = np.linspace(-64, 64, nb + 1).tolist()
        spec['mia_precision'] = ['uint32', 'float64', 'uint16'][int(rng.integers(3))] if rng.random() < 0.5 else None
    # traces
    if name in ('tstatic', 'tdpa'):
        means = np.array(spec['means'])
        tr = means[rng.integers(0, len(means), n)] + rng.normal(0, 8, (n, T))
        traces = (np.round(tr) if tdtype == 'int16' else tr).astype(tdtype)
    elif regime == 'E':
        X = gen.exact_bound(n, prec, ymax=ymax, mode='acc')
        if name == 'mia':
            X = 70
        traces = gen.int_traces(rng, n, T, tdtype, X)
    else:
        if tdtype not in gen.TRACE_DTYPES_FLOAT:
            tdtype = gen.TRACE_DTYPES_FLOAT[int(rng.integers(2))]
        off = float(rng.choice([0.0, 0.0, 50.0, 1000.0]))
        traces = gen.float_traces(rng, n, T, tdtype, offset=off, sigma=float(rng.choice([1.0, 10.0])))
    if name == 'mia' and regime == 'E' and rng.random() < 0.4:
        traces = np.array(traces, copy=True)
        traces[-1, :] = 64           # a saturated trace (every sample on the last bin edge, which is inclusive), often isolated in its own batch
    traces = gen.layout(rng, traces)
    if data is not None and name not in ('tstatic', 'tdpa'):
        data = gen.layout_nd(rng, data)          # intermediate values in C / Fortran / transposed-buffer / strided layouts
    return spec, traces, data, n, T, ws, tdtype


def _placements(mode, nb, rng):
    """Sets of gaps (gap g = after batch g, g in 0..nb-1) where compute() is inserted."""
    gaps = list(range(nb))
    if mode == 'subsets' and nb <= 4:
        return [list(s) for r in range(1, nb + 1) for s in itertools.combinations(gaps, r)]
    if mode == 'allgaps' or nb <= 1:
        return [gaps]
    k = int(rng.integers(1, nb + 1))
    return [sorted(rng.choice(gaps, size=k, replace=False).tolist()), gaps]


def _run_history(t, spec, traces, data, sizes, compute_gaps, kernels=None, bdts=None):
    obj = subjects.make(spec)
    if kernels is not None:
        CONTROL.force(obj, kernels)
    cs = CountedSubject(obj, t, update=(lambda tr, d=None: subjects.update(obj, spec, tr, d)))
    inter = {}
    pos = 0
    for g, s in enumerate(sizes):
        cs.update(traces[pos:pos + s] if bdts is None else traces[pos:pos + s].astype(bdts[g]), None if data is None else data[pos:pos + s])
        pos += s
        if g in compute_gaps:
            inter[g] = subjects.results(obj, spec)
            t.count('inserted_computes')
    first = subjects.results(obj, spec, raw=True)          # the very arrays handed to the caller
    final = [(la, np.array(a, copy=True)) for la, a in first]
    for la, a in first:
        # what the caller does with a returned array (here: overwriting it) is no business of the next compute()
        try:
            a[...] = -777
        except (ValueError, TypeError):
            pass
    again = subjects.results(obj, spec)
    t.count('compute_idempotence')
    for (la, a), (lb, b) in zip(final, again):
        t.check(tol.same(a, b), 'compute_not_idempotent', lambda: dict(subject=spec['name'], label=la, diff=tol.first_diff(a, b)))
    t.count('histories')
    return obj, final, inter


def _cmp(t, regime, ra, rb, scales, n, prec, mech, info, natural=1.0):
    for (la, a), (lb, b) in zip(ra, rb):
        if regime == 'E' or la not in scales:
            if regime == 'E' or la == 'compute' and info['subject'] == 'mia':
                t.check(tol.same(a, b), mech, lambda: dict(info, label=la, diff=tol.first_diff(a, b)))
            continue
        sc = np.asarray(scales[la], dtype=float)
        if sc.shape != np.shape(a) and sc.size == np.size(a):
            sc = sc.reshape(np.shape(a))
        tl = tol.C_R * max(n, 2) * tol.eps_of(prec) * sc
        if not tol.same(a, b):
            t.count('rounding_diffs_inside_bound_or_not')
        tol.compare_tol(t, a, b, tl, mech, info, metric='ratio_' + mech, natural=natural)


def run_case(case):
    t = core.Tally()
    rng = gen.rng_of(case['sub'])
    spec, traces, data, n, T, ws, tdtype = _workload(case, rng)
    name, prec, regime = case['subject'], case['precision'], case['regime']
    sizes = gen.split_sizes(rng, n)
    if case.get('bigframe'):
        q = n // int(rng.choice([4, 5, 8]))
        sizes = [q] * (n // q) + ([n % q] if n % q else [])
        t.count('megabyte_batch_cases')
    nb = len(sizes)
    info = dict(subject=name, precision=prec, regime=regime, n=n, T=T, ws=list(ws), tdtype=tdtype, sizes=sizes)
    kern = name in ('anova', 'nicv', 'snr', 'tbuild')
    kseq = [int(v) for v in rng.integers(0, 2, nb)] if kern else None
    scales = {}
    natural = 1.0
    if regime == 'R':
        if name in ('tstatic', 'tdpa'):
            scales = None
        else:
            scales = tol.result_scale(spec, traces, data)
            if name in ('dpa', 'ttacc', 'tbuild'):
                natural = float(np.max(np.abs(traces.astype(float)))) + 1e-30
    bdts = None
    if regime == 'E' and name not in ('tstatic', 'tdpa') and nb >= 2 and (case.get('mixedtypes') or rng.random() < 0.15):
        # the batches of one run come in different sample types (all of them hold the values exactly): same sums, same results
        lo_, hi_ = float(np.min(traces)), float(np.max(traces))
        ok_ = [d for d in ('int8', 'uint8', 'int16', 'uint16', 'int32', 'int64') if np.iinfo(d).min <= lo_ and hi_ <= np.iinfo(d).max] + ['float64'] + (['float32'] if max(abs(lo_), abs(hi_)) < 2 ** 24 else [])
        bdts = [ok_[int(rng.integers(len(ok_)))] for _ in sizes]
        info['batch_sample_types'] = bdts
        t.count('mixed_sample_type_histories')
    # A: one shot
    _, ra, _ = _run_history(t, spec, traces, data, [n], set(), kernels=[int(rng.integers(2))] if kern else None)
    # B: split
    objb, rb, _ = _run_history(t, spec, traces, data, sizes, set(), kernels=list(kseq) if kern else None, bdts=bdts)
    if name in ('tstatic', 'tdpa'):
        scales = _template_scales(objb, spec, traces, data, prec)
        natural = 10.0
    if nb >= 2:
        t.count('split_vs_oneshot')
        _cmp(t, regime, ra, rb, scales, n, prec, 'split_differs_from_one_batch', info, natural)
    # C: computes inserted
    for gaps in _placements(case['placements'], nb, rng)[:15]:
        _, rc, inter = _run_history(t, spec, traces, data, sizes, set(gaps), kernels=list(kseq) if kern else None, bdts=bdts)
        t.count('compute_transparency')
        inf2 = dict(info, compute_after_batches=gaps)
        # identical updates and kernels: the float operations are the same, so this is expected bit-identical;
        # the verdict is bit-equality in the exact regime and the bound otherwise (section 4)
        if regime == 'E' or name == 'mia':
            for (la, a), (lb, b) in zip(rb, rc):
                t.check(tol.same(a, b), 'compute_changed_later_results', lambda: dict(inf2, label=la, diff=tol.first_diff(a, b)))
        else:
            _cmp(t, 'R', rb, rc, scales, n, prec, 'compute_changed_later_results', inf2, natural)
            if any(not tol.same(a, b) for (_, a), (_, b) in zip(rb, rc)):
                t.count('unexpected_rounding_diff')
        if case.get('prefix') and gaps == list(range(nb)) and nb <= 5:
            # every intermediate compute equals a fresh one-shot execution on the prefix
            pos = 0
            for g, s in enumerate(sizes):
                pos += s
                if g == nb - 1:
                    continue
                _, rp, _ = _run_history(t, spec, traces[:pos], None if data is None else data[:pos], [pos], set(), kernels=[0] if kern else None)
                t.count('prefix_computes')
                sc = scales
                if regime == 'R' and name not in ('tstatic', 'tdpa'):
                    sc = tol.result_scale(spec, traces[:pos], None if data is None else data[:pos])
                _cmp(t, regime, rp, inter[g], sc, pos, prec, 'intermediate_compute_differs_from_prefix', dict(inf2, prefix=pos), natural)
    if nb == 1:
        t.count('split_vs_oneshot', 0)
    t.count('prefix_computes', 0)
    nontrivial = nb >= 2 or True
    sig = f"{name}|{prec}|{regime}|{tdtype}|{n}x{T}|{ws}|{sizes}|{case['placements']}"
    return t.result(nontrivial=nontrivial, sig=sig, sample=dict(case=case, derived=info, comparisons=t.checks))


def _template_scales(obj, spec, traces, data, prec):
    """First-order scale of the matching scores: sum over traces and samples of |a_i| * sum_j |M_ij| |a_j|."""
    M = np.abs(np.asarray(obj.pooled_covariance_inv, dtype=float))
    tm = np.asarray(obj.templates, dtype=float)
    x = np.asarray(traces, dtype=float)
    n, T = x.shape
    if spec['name'] == 'tstatic':
        idx = [np.full(n, i) for i in range(len(tm))]
    else:
        d = np.asarray(data).reshape(n, -1)
        idx = [d[:, g].astype(int) for g in range(d.shape[1])]
    sc = []
    ratio = float(np.finfo('float64').eps) / tol.eps_of(prec)
    for ix in idx:
        a = np.abs(x - tm[ix]) + np.abs(x) * 1e-6
        mu = float(np.sum((a @ M) * a)) / (T * n)       # mean absolute term of the score sum
        # rigorous forward bound: (T+2+nT) eps64 mu on the inner sums + one eps_p per batch on the running score
        sc.append(mu * (((T + 2) / n + T) * ratio + 1.0) + 1e-300)
    return dict(compute=np.array(sc))
