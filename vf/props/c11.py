"""C11 - results are independent of run-time kernel selection and thread count.

* kseq_static : all 2^k kernel sequences (k <= 6) over the batches of a run, executed with the classes' own JIT
                kernels on fresh accumulators; accumulators bit-identical in the exact regime, inside the
                recursive-summation bound otherwise (covers the 9-class switch: >9 classes compared too).
* kseq_object : real objects whose kernel per batch is dictated *and recorded* through the SCARED_VERIF hook
                (all-1, all-2, alternating, random, timing-based); results compared.
* threads     : every kernel (partitioned 1/2, template 1/2, MIA, t-test) under numba thread counts 1..16.
* sanitizer   : interpreter-mode run of every kernel's python source with tracked arrays: bounds, negative
                index writes, prange write/write and read/write conflicts, JIT-vs-interpreter differential.
"""
import itertools

import numpy as np

from .. import core, gen, subjects, tol
from ..monitors import CONTROL, KernelMonitor, Tracked, interpreted

ID = 'C11'
LEVEL = 'exploration'
WORKERS = {'quick': 8, 'thorough': 14}
BUDGET_S = {'quick': 90, 'thorough': 600}
NUMBA_THREADS = 16
REQUIRED_COUNTERS = ['kernel_sequences', 'forced_choices_recorded', 'thread_counts_run', 'sanitizer_kernel_runs', 'sanitizer_write_events',
                     'jit_vs_interpreter', 'narrow_float_cases']
RULE = ('cases: kseq_static (family partitioned|template, classes 2..64, batches 1..6 -> all 2^k sequences), kseq_object (anova|nicv|snr|'
        'tbuild with hook-dictated sequences all-1/all-2/alternating/random/timing-based), threads (6 kernels x thread counts '
        '{1,2,3,5,8,16}), sanitizer (7 kernel sources x shape classes); inputs: integer traces (exact regime), float32/float64 traces with '
        'offset 0/1000 (rounding regime), precision float32/float64 incl. traces narrower than the precision; non-trivial = at least two '
        'executions differing in kernel sequence or thread count were compared; distinct by (kind, family, dtype, precision, shape, sub-seed)')
ASSUMPTIONS = ['exact regime => bit equality; rounding regime => |acc difference| <= 2*n*eps*sum|terms| and results within 16*n*eps*scale',
               'the prange race monitor observes the kernels\' python source on small inputs, not the emitted machine code (linked by the '
               'JIT-vs-interpreter differential)']
THREADS = [1, 2, 3, 5, 8, 16]


def setup():
    if not CONTROL.install():
        raise core.Inconclusive('kernel-choice hook not available')


def cases(tier, seed):
    out = []
    k = 0
    for fam in ('part', 'tmpl'):
        for tdt in ('uint8', 'int16', 'int32', 'float32', 'float64'):
            for prec in ('float32', 'float64'):
                out.append(dict(gen='kseq_static', fam=fam, tdtype=tdt, precision=prec, sub=core.subseed('C11', seed, k), must=True))
                k += 1
    for name in ('anova', 'nicv', 'snr', 'tbuild'):
        for tdt, prec in (('int16', 'float32'), ('float32', 'float64'), ('float64', 'float64'), ('float32', 'float32')):
            out.append(dict(gen='kseq_object', subject=name, tdtype=tdt, precision=prec, sub=core.subseed('C11o', seed, k), must=True))
            k += 1
    for name, tdt in (('snr', 'uint8'), ('anova', 'int8'), ('nicv', 'uint8')):
        out.append(dict(gen='kseq_object', subject=name, tdtype=tdt, precision='float64', big=True, sub=core.subseed('C11big', seed, name), must=True))
    # results read between the batches (a convergence step), several words and samples
    for name, tdt, prec in (('snr', 'int16', 'float32'), ('anova', 'uint8', 'float64'), ('nicv', 'float32', 'float64'), ('tbuild', 'int16', 'float64')):
        out.append(dict(gen='kseq_object', subject=name, tdtype=tdt, precision=prec, between=True, sub=core.subseed('C11btw', seed, name), must=True))
    out.append(dict(gen='threads_ttest', sub=core.subseed('C11tt', seed), must=True))
    for kern in ('part1', 'part2', 'tmpl1', 'tmpl2', 'mia', 'ttest'):
        for tdt, prec in (('int16', 'float32'), ('float32', 'float64')):
            out.append(dict(gen='threads', kernel=kern, tdtype=tdt, precision=prec, sub=core.subseed('C11t', seed, k), must=True))
            k += 1
    for kern in ('part1', 'part2', 'tmpl1', 'tmpl2', 'mia', 'ttest'):
        out.append(dict(gen='sanitizer', kernel=kern, sub=core.subseed('C11s', seed, k), must=True))
        k += 1
    out.append(dict(gen='threads_object', sub=core.subseed('C11to', seed), must=True))
    rs = np.random.default_rng(core.subseed('C11r', seed))
    n_rand = 120 if tier == 'quick' else 5000
    kinds = ['kseq_static'] * 5 + ['threads'] * 2 + ['sanitizer'] * 2 + ['kseq_object'] * 2 + ['threads_ttest']
    for j in range(n_rand):
        g = kinds[int(rs.integers(len(kinds)))]
        c = dict(gen=g, sub=int(rs.integers(2 ** 62)), tdtype=['uint8', 'int16', 'int32', 'float32', 'float64'][int(rs.integers(5))],
                 precision=['float32', 'float64'][int(rs.integers(2))])
        if g == 'kseq_static':
            c['fam'] = ['part', 'tmpl'][int(rs.integers(2))]
        elif g == 'kseq_object':
            c['subject'] = ['anova', 'nicv', 'snr', 'tbuild'][int(rs.integers(4))]
            c['between'] = bool(rs.random() < 0.5)
        elif g == 'threads_ttest':
            pass
        else:
            c['kernel'] = ['part1', 'part2', 'tmpl1', 'tmpl2', 'mia', 'ttest'][int(rs.integers(6))]
        out.append(c)
    return out


# ---------------------------------------------------------------------------------------------------------
def _kernels():
    from scared.distinguishers import partitioned, template, mia
    from scared import ttest
    return dict(part1=partitioned.PartitionedDistinguisherMixin._accumulate_core_1, part2=partitioned.PartitionedDistinguisherMixin._accumulate_core_2,
                tmpl1=template._TemplateBuildDistinguisherMixin._accumulate_core_1, tmpl2=template._TemplateBuildDistinguisherMixin._accumulate_core_2,
                mia=mia.MIADistinguisherMixin._accumulate_core, ttest=ttest.TTestThreadAccumulator._update_core)


def _inputs(rng, tdtype, prec, n, T, W, K, undeclared=True, exact_only=False):
    """traces, class-index data (int32, -1 = undeclared), regime."""
    if np.dtype(tdtype).kind == 'f' and not exact_only:
        traces = gen.float_traces(rng, n, T, tdtype, offset=float(rng.choice([0.0, 1000.0])), sigma=1.0)
        regime = 'R'
    else:
        X = gen.exact_bound(n, prec, mode='acc')
        traces = gen.int_traces(rng, n, T, tdtype, X)
        regime = 'E'
    data = rng.integers(-1 if undeclared else 0, K, (n, W)).astype('int32')
    return traces, data, regime


def _fresh(kern, prec, T, W, K, nbins=None):
    p = np.dtype(prec)
    if kern.startswith('part'):
        return [np.zeros((T, W, K), p), np.zeros((T, W, K), p), np.zeros((W, K), p)]
    if kern.startswith('tmpl'):
        return [np.zeros((K, T), p), np.zeros((K, T, T), p), np.zeros(K, p)]
    if kern == 'mia':
        return [np.zeros((T, nbins, K, W), dtype='uint32')]
    return [np.zeros(T, p), np.zeros(T, p)]


def _call(kern, fn, traces, data, acc, prec, edges=None):
    p = np.dtype(prec)
    if kern.startswith('part'):
        fn(traces, data, acc[0], acc[1], acc[2], p)
    elif kern.startswith('tmpl'):
        fn(traces, data, acc[0], acc[1], acc[2], p.type)
    elif kern == 'mia':
        fn(traces, data, edges, acc[0])
    else:
        fn(traces, acc[0], acc[1], p)


def _acc_bounds(kern, traces, data, K, prec, edges=None):
    """sum of |terms| entering every accumulator cell (float64), for the rounding-regime bound."""
    x = np.abs(np.asarray(traces, dtype=float))
    n, T = x.shape
    if kern.startswith('part'):
        W = data.shape[1]
        s = np.zeros((T, W, K))
        ss = np.zeros((T, W, K))
        for w in range(W):
            for c in range(K):
                m = data[:, w] == c
                s[:, w, c] = x[m].sum(0)
                ss[:, w, c] = (x[m] ** 2).sum(0)
        return [s, ss, None]
    if kern.startswith('tmpl'):
        s = np.zeros((K, T))
        ss = np.zeros((K, T, T))
        for c in range(K):
            m = data[:, 0] == c
            s[c] = x[m].sum(0)
            ss[c] = x[m].T @ x[m]
        return [s, ss, None]
    if kern == 'ttest':
        return [x.sum(0), (x ** 2).sum(0)]
    return [None]


def _compare_acc(t, regime, a, b, bounds, n, prec, mech, info):
    for i, (u, v) in enumerate(zip(a, b)):
        if regime == 'E' or bounds[i] is None:
            t.check(tol.same(u, v), mech, lambda: dict(info, accumulator=i, diff=tol.first_diff(u, v)))
        else:
            tl = 2 * max(n, 2) * tol.eps_of(prec) * bounds[i] + 1e-300
            diff = np.abs(u.astype(float) - v.astype(float))
            with np.errstate(all='ignore'):
                t.metric('ratio_' + mech, float(np.max(diff / tl)))
            bad = diff > tl
            t.count('entries_compared', int(diff.size))
            t.check(not bad.any(), mech, lambda: dict(info, accumulator=i, index=[int(x) for x in np.argwhere(bad)[0]], a=float(u[tuple(np.argwhere(bad)[0])]),
                                                     b=float(v[tuple(np.argwhere(bad)[0])]), tol=float(tl[tuple(np.argwhere(bad)[0])]), n_bad=int(bad.sum())))


def run_case(case):
    import numba
    t = core.Tally()
    rng = gen.rng_of(case['sub'])
    g = case['gen']
    numba.set_num_threads(int(rng.choice([2, 4, 8])))
    for c in REQUIRED_COUNTERS:
        t.count(c, 0)
    if g == 'kseq_static':
        r = _kseq_static(t, case, rng)
    elif g == 'kseq_object':
        r = _kseq_object(t, case, rng)
    elif g == 'threads':
        r = _threads(t, case, rng)
    elif g == 'threads_object':
        r = _threads_object(t, case, rng)
    elif g == 'sanitizer':
        r = _sanitizer(t, case, rng)
    elif g == 'threads_ttest':
        r = _threads_ttest(t, case, rng)
    else:
        raise core.Inconclusive('unknown generator ' + g)
    numba.set_num_threads(4)
    return r


def _kseq_static(t, case, rng):
    K = _kernels()
    fam, prec, tdtype = case['fam'], case['precision'], case['tdtype']
    nb = int(rng.integers(1, 7))
    n = int(rng.choice([6, 20, 80, 300, 2000]))
    T = int(rng.integers(1, 7))
    W = int(rng.integers(1, 4)) if fam == 'part' else 1
    ncls = int(rng.choice([2, 3, 9, 10, 17, 64]))
    traces, data, regime = _inputs(rng, tdtype, prec, n, T, W, ncls)
    if np.dtype(tdtype).kind == 'f' and np.dtype(tdtype).itemsize < np.dtype(prec).itemsize:
        t.count('narrow_float_cases')
    sizes = gen.split_sizes(rng, n, kind='random', kmax=nb) if n > nb and nb > 1 else [n]
    nb = len(sizes)
    k1, k2 = (K['part1'], K['part2']) if fam == 'part' else (K['tmpl1'], K['tmpl2'])
    kern = 'part1' if fam == 'part' else 'tmpl1'
    bounds = _acc_bounds(kern, traces, data, ncls, prec) if regime == 'R' else [None] * 3
    info = dict(case=case, n=n, T=T, W=W, classes=ncls, sizes=sizes, regime=regime)
    ref = None
    seqs = list(itertools.product([0, 1], repeat=nb))
    for seq in seqs:
        acc = _fresh(kern, prec, T, W, ncls)
        pos = 0
        for s, kk in zip(sizes, seq):
            _call(kern, (k1, k2)[kk], traces[pos:pos + s], data[pos:pos + s], acc, prec)
            pos += s
        t.count('kernel_sequences')
        if ref is None:
            ref = (seq, acc)
        else:
            _compare_acc(t, regime, ref[1], acc, bounds, n, prec, 'kernel_sequence_changes_accumulators', dict(info, seq_a=ref[0], seq_b=seq))
    # counters are integers in every regime
    return t.result(nontrivial=len(seqs) > 1, sig=f"ks|{fam}|{tdtype}|{prec}|{n}x{T}x{W}|{ncls}|{sizes}",
                    sample=dict(info, sequences=len(seqs), comparisons=t.checks))


def _kseq_object(t, case, rng):
    name, prec, tdtype = case['subject'], case['precision'], case['tdtype']
    ncls = int(rng.choice([2, 4, 9]))
    n = int(rng.choice([12, 60, 400, 2000]))
    if np.dtype(tdtype).kind in 'iu' and prec == 'float64' and name != 'tbuild' and (case.get('big') or rng.random() < 0.4):
        # big batches of narrow integers: per-class sums of squares beyond 2^24 within one batch, still exact in double precision
        n, ncls = int(rng.choice([6000, 12000])), int(rng.choice([2, 3]))
        t.count('big_batch_cases')
    T = int(rng.integers(1, 6))
    W = 1 if name == 'tbuild' else int(rng.integers(1, 3))
    between = bool(case.get('between'))
    if between and case.get('must'):
        T, W = 3, (1 if name == 'tbuild' else 2)
    parts = list(range(ncls))
    if np.dtype(tdtype).kind == 'f':
        traces = gen.float_traces(rng, n, T, tdtype, offset=float(rng.choice([0.0, 1000.0])), sigma=1.0)
        regime = 'R'
        if np.dtype(tdtype).itemsize < np.dtype(prec).itemsize:
            t.count('narrow_float_cases')
    else:
        traces = gen.int_traces(rng, n, T, tdtype, gen.exact_bound(n, prec, mode='acc'))
        regime = 'E'
    data = rng.integers(0, ncls + 1, (n, W)).astype('uint8')      # value ncls is undeclared
    sizes = gen.split_sizes(rng, n, kind='random', kmax=5) if n > 5 else [n]
    nb = len(sizes)
    spec = dict(name=name, precision=prec, partitions=parts)
    plans = {'all1': [0] * nb, 'all2': [1] * nb, 'alt': [i % 2 for i in range(nb)], 'rand': [int(v) for v in rng.integers(0, 2, nb)], 'timing': None}
    res = {}
    for label, plan in plans.items():
        obj = subjects.make(spec)
        if plan is not None:
            CONTROL.force(obj, list(plan))
        pos = 0
        for s in sizes:
            obj.update(traces[pos:pos + s], data[pos:pos + s])
            pos += s
            if between and pos < n:
                with np.errstate(all='ignore'):
                    subjects.results(obj, spec)           # results read between the batches must not disturb what follows
                t.count('results_read_between_batches')
        ran = CONTROL.choices_of(obj)
        t.count('forced_choices_recorded', len(ran))
        t.check(len(ran) == nb and (plan is None or ran == plan), 'kernel_choice_not_honoured_or_not_recorded', lambda: dict(plan=plan, ran=ran, label=label))
        with np.errstate(all='ignore'):
            res[label] = (ran, subjects.results(obj, spec))
        t.count('kernel_sequences')
    info = dict(case=case, n=n, T=T, W=W, classes=ncls, sizes=sizes, regime=regime, results_read_between_batches=between)
    scales = tol.result_scale(spec, traces, data) if regime == 'R' else {}
    natural = 1.0 if name != 'tbuild' else float(np.max(np.abs(traces.astype(float)))) + 1e-30
    ref_label = 'all1'
    for label in plans:
        if label == ref_label:
            continue
        for (la, a), (lb, b) in zip(res[ref_label][1], res[label][1]):
            inf2 = dict(info, label=la, kernels_a=res[ref_label][0], kernels_b=res[label][0])
            if regime == 'E':
                t.check(tol.same(a, b), 'kernel_choice_changes_result', lambda: dict(inf2, diff=tol.first_diff(a, b)))
            elif la in scales:
                sc = np.asarray(scales[la], dtype=float).reshape(np.shape(a))
                tol.compare_tol(t, a, b, tol.C_R * n * tol.eps_of(prec) * sc, 'kernel_choice_changes_result', inf2, metric='ratio_kernel_choice_result', natural=natural)
    return t.result(sig=f"ko|{name}|{tdtype}|{prec}|{n}x{T}x{W}|{ncls}|{sizes}", sample=dict(info, plans={k: v[0] for k, v in res.items()}, comparisons=t.checks))


def _threads(t, case, rng):
    import numba
    K = _kernels()
    kern, prec, tdtype = case['kernel'], case['precision'], case['tdtype']
    n = int(rng.choice([10, 100, 1500]))
    T = int(rng.choice([1, 2, 7, 33]))
    W = 1 if kern.startswith('tmpl') else int(rng.integers(1, 3))
    ncls = int(rng.choice([2, 9, 12]))
    if kern.startswith('tmpl'):
        T = min(T, 7)
    traces, data, regime = _inputs(rng, tdtype, prec, n, T, W, ncls, undeclared=(kern != 'mia'))
    edges, nbins = None, None
    if kern == 'mia':
        nbins = int(rng.choice([2, 8, 32]))
        lo, hi = float(np.min(traces)), float(np.max(traces))
        edges = np.linspace(lo - 1, hi + 1, nbins + 1)
        regime = 'E'
    bounds = _acc_bounds(kern, traces, data, ncls, prec) if regime == 'R' else [None] * 3
    info = dict(case=case, n=n, T=T, W=W, classes=ncls, regime=regime)
    ref = None
    for k in THREADS:
        numba.set_num_threads(k)
        acc = _fresh(kern, prec, T, W, ncls, nbins)
        # two batches so that accumulation on non-zero state is exercised as well
        h = n // 2
        _call(kern, K[kern], traces[:h], data[:h], acc, prec, edges)
        _call(kern, K[kern], traces[h:], data[h:], acc, prec, edges)
        t.count('thread_counts_run')
        if ref is None:
            ref = acc
        else:
            _compare_acc(t, regime, ref, acc, bounds, n, prec, 'thread_count_changes_accumulators', dict(info, threads=k))
    return t.result(sig=f"th|{kern}|{tdtype}|{prec}|{n}x{T}x{W}|{ncls}", sample=dict(info, thread_counts=THREADS, comparisons=t.checks))


def _threads_object(t, case, rng):
    import numba
    n, T = 600, 9
    traces = gen.int_traces(rng, n, T, 'int16', gen.exact_bound(n, 'float32', mode='acc'))
    data = rng.integers(0, 5, (n, 2)).astype('uint8')
    for name in ('snr', 'mia', 'tbuild'):
        spec = dict(name=name, precision='float32', partitions=[0, 1, 2, 3])
        d = data[:, :1] if name == 'tbuild' else data
        if name == 'mia':
            spec['bin_edges'] = np.linspace(-100, 100, 9).tolist()
        ref = None
        for k in (1, 16, 5):
            numba.set_num_threads(k)
            obj = subjects.make(spec)
            CONTROL.force(obj, [0, 1, 0])
            for i in range(3):
                obj.update(traces[i * 200:(i + 1) * 200], d[i * 200:(i + 1) * 200])
            r = subjects.results(obj, spec)
            t.count('thread_counts_run')
            if ref is None:
                ref = r
            else:
                for (la, a), (lb, b) in zip(ref, r):
                    t.check(tol.same(a, b), 'thread_count_changes_result', lambda: dict(subject=name, threads=k, label=la, diff=tol.first_diff(a, b)))
    return t.result(sig='threads_object', sample=dict(case=case, comparisons=t.checks))


def _threads_ttest(t, case, rng):
    """The t-test accumulator object (its update method, not only the kernel behind it) under several thread counts, for traces
    narrower than, as wide as, and of another kind than the precision."""
    import numba
    from scared import ttest
    for tdtype, prec in (('float32', 'float64'), ('float32', 'float32'), ('float64', 'float64'), ('int16', 'float64'), ('uint8', 'float32')):
        n, T = int(rng.choice([90, 301, 1000])), int(rng.choice([1, 4, 17]))
        if np.dtype(tdtype).kind == 'f':
            traces = gen.float_traces(rng, n, T, 'float64', offset=float(rng.choice([0.0, 1000.0])), sigma=1.0).astype(tdtype)
            regime = 'R'
        else:
            traces = gen.int_traces(rng, n, T, tdtype, gen.exact_bound(n, prec, mode='acc'))
            regime = 'E'
        x = traces.astype('float64')
        exact = [x.sum(0), (x * x).sum(0)]
        bounds = [np.abs(x).sum(0), (x * x).sum(0)]
        sizes = gen.split_sizes(rng, n, kind='random', kmax=4)
        ref = None
        for k in (1, 2, 16, 1, 5):
            numba.set_num_threads(k)
            acc = ttest.TTestThreadAccumulator(precision=prec)
            pos = 0
            for s_ in sizes:
                acc.update(traces[pos:pos + s_])
                pos += s_
            t.count('thread_counts_run')
            t.count('ttest_objects_under_thread_counts')
            got = [np.asarray(acc.sum), np.asarray(acc.sum_squared)]
            info = dict(case=case, tdtype=tdtype, precision=prec, n=n, T=T, sizes=sizes, threads=k, regime=regime)
            t.check(int(acc.processed_traces) == n, 'ttest_trace_count', lambda: dict(info, got=int(acc.processed_traces)))
            for i, nm in enumerate(('sum', 'sum_squared')):
                if regime == 'E':
                    t.check(np.array_equal(got[i].astype('float64'), exact[i]), 'thread_count_changes_accumulators', lambda: dict(info, accumulator=nm, diff=tol.first_diff(got[i].astype('float64'), exact[i])))
                else:
                    # recursive summation in the precision of terms converted exactly from the traces' own type
                    lim = 2 * n * tol.eps_of(prec) * bounds[i] + 1e-300
                    d = np.abs(got[i].astype('float64') - exact[i])
                    t.metric('ratio_ttest_accumulator_vs_exact', float(np.max(d / lim)))
                    t.check(bool(np.all(d <= lim)), 'thread_count_changes_accumulators', lambda: dict(info, accumulator=nm, worst_ratio=float(np.max(d / lim))))
            if ref is None:
                ref = got
    return t.result(sig=f"thtt|{case['sub']}", sample=dict(case=case, comparisons=t.checks))


def _sanitizer(t, case, rng):
    K = _kernels()
    kern = case['kernel']
    n = int(rng.integers(1, 25))
    T = int(rng.integers(1, 6))
    W = 1 if kern.startswith('tmpl') else int(rng.integers(1, 4))
    ncls = int(rng.choice([1, 2, 3, 9, 11]))
    prec = ['float32', 'float64'][int(rng.integers(2))]
    tdtype = ['uint8', 'int16', 'float32', 'float64'][int(rng.integers(4))]
    traces, data, regime = _inputs(rng, tdtype, prec, n, T, W, ncls, undeclared=True, exact_only=True)
    traces = traces.astype(tdtype)
    edges, nbins = None, None
    if kern == 'mia':
        nbins = int(rng.integers(1, 7))
        lo, hi = float(np.min(traces)), float(np.max(traces))
        # samples on the first / last edge, inside and outside
        edges = np.linspace(lo + (1 if rng.random() < 0.5 else 0), hi - (1 if rng.random() < 0.5 and hi - lo > 3 else 0) + (0 if hi > lo else 1), nbins + 1)
        if not edges[-1] > edges[0]:
            edges = np.linspace(lo - 1, hi + 1, nbins + 1)        # the kernel is only ever handed increasing edges (the setter refuses anything else)
    mon = KernelMonitor()
    fn = interpreted(K[kern], mon)
    acc = _fresh(kern, prec, T, W, ncls, nbins)
    names = ['a0', 'a1', 'a2']
    tracked = [Tracked(a, mon, names[i]) for i, a in enumerate(acc)]
    info = dict(case=case, kernel=kern, n=n, T=T, W=W, classes=ncls, precision=prec, tdtype=tdtype)
    try:
        _call(kern, fn, traces, data, tracked, prec, edges)
    except IndexError as e:
        t.check(False, 'kernel_index_out_of_bounds', dict(info, error=str(e)))
        return t.result(sig=core.digest(case), sample=info)
    t.count('sanitizer_kernel_runs')
    t.count('sanitizer_write_events', mon.write_events)
    t.count('sanitizer_read_events', mon.read_events)
    ww, rw = mon.conflicts()
    t.check(not ww, 'prange_write_write_conflict', lambda: dict(info, cells=ww[:5]))
    t.check(not rw, 'prange_read_write_conflict', lambda: dict(info, cells=rw[:5]))
    t.check(mon.negative_index_writes == 0, 'negative_index_write', lambda: dict(info, count=mon.negative_index_writes))
    # JIT on the same inputs
    acc_j = _fresh(kern, prec, T, W, ncls, nbins)
    _call(kern, K[kern], traces, data, acc_j, prec, edges)
    t.count('jit_vs_interpreter')
    for i, (u, v) in enumerate(zip(acc, acc_j)):
        t.check(tol.same(u, v), 'jit_differs_from_interpreter', lambda: dict(info, accumulator=i, diff=tol.first_diff(u, v)))
    return t.result(sig=f"san|{kern}|{tdtype}|{prec}|{n}x{T}x{W}|{ncls}|{nbins}", sample=dict(info, write_events=mon.write_events, cells_written=len(mon.writes)))
