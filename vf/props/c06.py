"""C06 - DES / TDES encrypt/decrypt and every intermediate stop point conform to FIPS 46-3.

Oracle: vf.refs.des_ref (bit-level DES from the standard's tables, every round value recorded), mapped on
scared's (at_des, at_round, after_step) by the table fixed in DESIGN.md 5/C06.  Monitors: read-only caller
arrays + byte snapshots; the class-level round templates (FIRST_ROUND ...) and module tables are digest-checked
after every case (a stop-point edit leaking into the shared lists is a history bug that only shows on the
*next* call, so every case also re-queries one stop point it already queried and expects the same bytes).
"""
import numpy as np

from .. import core
from ..refs import des_ref as D

ID = 'C06'
LEVEL = 'exploration'
WORKERS = {'quick': 6, 'thorough': 14}
BUDGET_S = {'quick': 70, 'thorough': 420}
REQUIRED_COUNTERS = ['stop_points', 'blocks', 'primitive_values', 'roundtrips', 'inputs_unchanged', 'templates_checked', 'history_calls']
RULE = ('every (at_des in passes, at_round in 0..15, after_step in 0..9, direction) stop point is queried in each case; a case = '
        '(key form 8|16|24|128|256|384 bytes, direction, one of 4 broadcasting shapes, dtype, structure: random | walking-one '
        'blocks (64) | walking-one keys | zeros | ones | defaults); primitives: all 8x64 S-box inputs, walking-one + per-byte + '
        'random inputs for IP/FP/E/P/P^-1. Non-trivial = at least one stop value compared with the reference; distinct by '
        '(key form, direction, shape, dtype, structure, sub-seed)')
ASSUMPTIONS = ['vf.refs.des_ref is a correct FIPS 46-3 implementation (self-tested against published vectors and pycryptodome DES/DES3)',
               'the stop-point map of DESIGN.md 5/C06 is the documented meaning of scared.des.Steps']

KEYFORMS = [8, 16, 24, 128, 256, 384]
DTYPES = ['uint8', 'int16', 'int32', 'int64', 'uint16', 'uint64', 'uint32', '>u2', '>i4']       # incl. non-native byte order
SHAPES = ['one_one', 'many_one', 'one_many', 'paired']


def exhaustive_note(tier):
    return ['all passes x 16 rounds x 10 steps x 2 directions for each of the 6 key forms', 'all 8x64 S-box inputs',
            'all 64 walking-one blocks (a bit permutation is determined by them)']


def setup():
    err = D.self_test()
    if err:
        raise core.Inconclusive('DES reference self-test failed: ' + err)


def cases(tier, seed):
    out = [dict(gen='primitives', must=True)]
    k = 0
    for kf in KEYFORMS:
        for direction in ('encrypt', 'decrypt'):
            for shape in SHAPES:
                out.append(dict(gen='stops', kf=kf, dir=direction, shape=shape, dtype=DTYPES[k % len(DTYPES)], struct='random', n=4,
                                sub=core.subseed('C06', seed, k), must=True))
                k += 1
    for kf in KEYFORMS:
        for direction in ('encrypt', 'decrypt'):
            out.append(dict(gen='stops', kf=kf, dir=direction, shape='many_one', dtype='uint8', struct='walk_block', n=64,
                            sub=core.subseed('C06', seed, k)))
            k += 1
            for struct in ('zeros', 'ones', 'defaults'):
                out.append(dict(gen='stops', kf=kf, dir=direction, shape=SHAPES[k % 4], dtype=DTYPES[k % len(DTYPES)], struct=struct, n=3,
                                sub=core.subseed('C06', seed, k)))
                k += 1
            if kf <= 24:
                out.append(dict(gen='stops', kf=kf, dir=direction, shape='one_many', dtype='uint8', struct='walk_key', n=8 * kf,
                                sub=core.subseed('C06', seed, k)))
                k += 1
    for j in range(6 if tier == 'quick' else 150):
        out.append(dict(gen='history', calls=30, sub=core.subseed('C06h', seed, j), must=j < 3))
    out.append(dict(gen='threads', sub=core.subseed('C06t', seed), must=True))
    for j, nbig in enumerate([32773] if tier == 'quick' else [32773, 65537, 100000]):
        out.append(dict(gen='bigbatch', n=nbig, sub=core.subseed('C06b', seed, j), must=True))
    n_rand = 30 if tier == 'quick' else 3000
    rs = np.random.default_rng(core.subseed('C06r', seed))
    for j in range(n_rand):
        out.append(dict(gen='stops', kf=int(rs.choice(KEYFORMS)), dir=['encrypt', 'decrypt'][int(rs.integers(2))],
                        shape=SHAPES[int(rs.integers(4))], dtype=DTYPES[int(rs.integers(len(DTYPES)))], struct='random',
                        n=int(rs.choice([1, 2, 5, 11])), sub=int(rs.integers(2 ** 62))))
    return out


def _ro(a):
    """Read-only view keeping the memory layout of `a`."""
    v = np.asarray(a).view()
    v.setflags(write=False)
    return v


def _shared_digest():
    from scared.des import base as B
    P = B._ParametricCipher
    templ = [[None if s is None else int(s) for s in getattr(P, n)] for n in ('MANDATORY_ROUND_ELEMENTS', 'FIRST_ROUND', 'ROUND', 'LAST_ROUND', 'FINAL_ROUND')]
    tabs = [getattr(B, n).tobytes() for n in ('SBOXES', 'ROUND_KEY_BITS_INDEXES', 'ROUND_KEY_MISSING_BITS_INDEXES') if hasattr(B, n)]
    return core.digest([templ, tabs])


_S0 = None


def _build(case, rng):
    kf, n, struct, shape = case['kf'], case['n'], case['struct'], case['shape']
    nb = 1 if shape in ('one_one', 'one_many') else n
    nkeys = 1 if shape in ('one_one', 'many_one') else n
    blocks = rng.integers(0, 256, (nb, 8))
    keys = rng.integers(0, 64 if kf >= 128 else 256, (nkeys, kf))
    if struct == 'zeros':
        blocks[:] = 0
        keys[:] = 0
    elif struct == 'ones':
        blocks[:] = 255
        keys[:] = 63 if kf >= 128 else 255
    elif struct == 'walk_block':
        blocks = np.zeros((64, 8), dtype='int64')
        for i in range(64):
            blocks[i, i // 8] = 0x80 >> (i % 8)
    elif struct == 'walk_key':
        keys = np.zeros((8 * kf, kf), dtype='int64')
        for i in range(8 * kf):
            keys[i, i // 8] = 0x80 >> (i % 8)
    return blocks, keys


def run_case(case):
    global _S0
    import scared
    t = core.Tally()
    if _S0 is None:
        _S0 = _shared_digest()
    if case['gen'] == 'primitives':
        return _primitives(t, case)
    if case['gen'] == 'history':
        return _history(t, case)
    if case['gen'] == 'threads':
        return _threads(t, case)
    if case['gen'] == 'bigbatch':
        return _bigbatch(t, case)
    rng = np.random.default_rng(case['sub'])
    blocks, keys = _build(case, rng)
    dt = np.dtype(case['dtype'])
    shape, kf, mode = case['shape'], case['kf'], case['dir']
    nb, nkeys = len(blocks), len(keys)
    from .. import gen as _gen
    lay = np.random.default_rng(case['sub'] ^ 0x5eed)
    arr_b = _ro(_gen.layout_nd(lay, blocks.astype(dt)) if shape in ('many_one', 'paired') else blocks[0].astype(dt))
    arr_k = _ro(_gen.layout_nd(lay, keys.astype(dt)) if shape in ('one_many', 'paired') else keys[0].astype(dt))
    t.count('layout:' + ('C' if arr_b.flags.c_contiguous and arr_k.flags.c_contiguous else 'non_C'))
    snap = (arr_b.tobytes(), arr_k.tobytes())
    n = max(nb, nkeys)
    traces = [D.tdes_trace(blocks[i if nb > 1 else 0].tolist(), keys[i if nkeys > 1 else 0].tolist(), mode) for i in range(n)]
    npass = len(traces[0])
    fn = getattr(scared.des, mode)
    t.count('blocks', n)

    def shape_of(width):
        return (width,) if n == 1 else (n, width)

    if case['struct'] == 'defaults':
        got = fn(arr_b, arr_k)
        exp = np.array([tr[-1][2] for tr in traces], dtype='uint8').reshape(shape_of(8))
        t.count('stop_points')
        t.check(np.shape(got) == exp.shape and np.array_equal(got, exp), 'full_cipher_default_args', lambda: dict(case=case, got=np.asarray(got).tolist(), expected=exp.tolist()))
        for p in range(npass):
            got = fn(arr_b, arr_k, at_des=p)
            exp = np.array([tr[p][2] for tr in traces], dtype='uint8').reshape(shape_of(8))
            t.count('stop_points')
            t.check(np.shape(got) == exp.shape and np.array_equal(got, exp), 'at_des_default_round_step', lambda: dict(case=case, at_des=p))
    first_query = None
    for p in range(npass):
        for rnd in range(16):
            for step in range(10):
                got = fn(arr_b, arr_k, at_des=p, at_round=rnd, after_step=step)
                exp = np.array([D.stop_value(tr[p][0], tr[p][1], tr[p][2], rnd, step) for tr in traces], dtype='uint8')
                exp = exp.reshape(shape_of(exp.shape[-1]))
                t.count('stop_points')
                ok = np.shape(got) == exp.shape and got.dtype == np.uint8 and np.array_equal(got, exp)
                t.check(ok, f'stop_point_{mode}',
                        lambda: dict(kf=kf, dir=mode, at_des=p, at_round=rnd, after_step=step, shape=shape, dtype=str(dt), block=blocks[0].tolist(),
                                     key=keys[0].tolist()[:24], got=np.asarray(got).reshape(-1, np.shape(got)[-1])[0].tolist(), expected=exp.reshape(-1, exp.shape[-1])[0].tolist()))
                if first_query is None:
                    first_query = (p, rnd, step, np.array(got, copy=True))
    # history: the very first stop point queried again after all the others must give the same bytes
    p, rnd, step, before = first_query
    again = fn(arr_b, arr_k, at_des=p, at_round=rnd, after_step=step)
    t.check(np.array_equal(again, before), 'stop_point_history_dependence', lambda: dict(case=case))
    t.count('templates_checked')
    t.check(_shared_digest() == _S0, 'shared_round_template_modified', lambda: dict(case=case))
    # default at_des / at_round with each step of the last round
    full = fn(arr_b, arr_k)
    exp = np.array([tr[-1][2] for tr in traces], dtype='uint8').reshape(shape_of(8))
    t.check(np.array_equal(full, exp), 'full_cipher', lambda: dict(case=case))
    inv = scared.des.decrypt if mode == 'encrypt' else scared.des.encrypt
    back = inv(full, arr_k)
    orig = blocks if nb == n else np.repeat(blocks[:1], n, axis=0)
    t.count('roundtrips')
    t.check(np.array_equal(np.asarray(back).reshape(-1, 8), orig.reshape(-1, 8)), 'roundtrip', lambda: dict(case=case))
    if kf in (8, 16, 24):
        # the same computation from pre-expanded round keys must agree with the master-key form
        exp_keys = np.array([sum([sum(D.round_keys(k8), []) for k8 in D.split_master(keys[i].tolist())[:kf // 8]], []) for i in range(nkeys)], dtype='uint8')
        ek = _ro(exp_keys if shape in ('one_many', 'paired') else exp_keys[0])
        got = fn(arr_b, ek)
        t.check(np.array_equal(got, full), 'expanded_vs_master_key', lambda: dict(case=case))
    t.count('inputs_unchanged')
    t.check((arr_b.tobytes(), arr_k.tobytes()) == snap, 'input_modified', lambda: dict(case=case))
    sig = '|'.join(str(case.get(k)) for k in ('kf', 'dir', 'shape', 'dtype', 'struct', 'n', 'sub'))
    return t.result(sig=sig, sample=dict(case=case, stop_points=npass * 160, blocks=n, comparisons=t.checks))


def _bigbatch(t, case):
    """Tens of thousands of blocks in one call, judged on rows at the start, around the multiples of 2^15 and at the end."""
    import scared
    rng = np.random.default_rng(case['sub'])
    n = case['n']
    kf = int(rng.choice([8, 16, 24]))
    blocks = rng.integers(0, 256, (n, 8)).astype('uint8')
    key = rng.integers(0, 256, kf).astype('uint8')
    rows = sorted(set([0, 1, n - 1, n - 2] + [m + d for m in range(32768, n, 32768) for d in (-1, 0, 1) if 0 <= m + d < n] + rng.integers(0, n, 4).tolist()))
    npass = 1 if kf == 8 else 3
    for mode in ('encrypt', 'decrypt'):
        fn = getattr(scared.des, mode)
        for spec in (None, (int(rng.integers(npass)), int(rng.integers(16)), int(rng.integers(10)))):
            got = np.asarray(fn(blocks, key) if spec is None else fn(blocks, key, at_des=spec[0], at_round=spec[1], after_step=spec[2]))
            t.count('stop_points')
            bad = None
            ok = got.ndim == 2 and got.shape[0] == n
            if ok:
                for r in rows:
                    tr = D.tdes_trace(blocks[r].tolist(), key.tolist(), mode)
                    exp = tr[-1][2] if spec is None else D.stop_value(tr[spec[0]][0], tr[spec[0]][1], tr[spec[0]][2], spec[1], spec[2])
                    t.count('blocks')
                    if bad is None and got[r].tolist() != list(exp):
                        bad = dict(row=r, got=got[r].tolist(), expected=list(exp))
            t.check(ok and bad is None, 'big_batch_row_differs', lambda: dict(n=n, kf=kf, mode=mode, stop=spec, shape=got.shape, first_bad=bad))
    for c in ('roundtrips', 'inputs_unchanged', 'templates_checked', 'primitive_values', 'history_calls'):
        t.count(c, 0)
    return t.result(sig=f"bigbatch|{n}|{kf}", sample=dict(case=case, rows_checked=len(rows)))


def _threads(t, case):
    """Two threads call the cipher at the same time with different inputs (per-call state must not be shared between calls)."""
    import sys
    import threading
    import scared
    rng = np.random.default_rng(case['sub'])
    jobs = []
    for j in range(2):
        for c in range(20):
            kf = int(rng.choice([8, 16, 24]))
            n = int(rng.choice([1, 2, 300]))
            key = rng.integers(0, 256, kf).astype('uint8')
            blk = rng.integers(0, 256, (n, 8)).astype('uint8') if n > 1 else rng.integers(0, 256, 8).astype('uint8')
            mode = ['encrypt', 'decrypt'][int(rng.integers(2))]
            npass = 1 if kf == 8 else 3
            jobs.append((j, mode, key, blk, int(rng.integers(npass)), int(rng.integers(16)), int(rng.integers(10))))
    results, errors = {}, []

    def work(j):
        for idx, (jj, mode, key, blk, p, rnd, step) in enumerate(jobs):
            if jj != j:
                continue
            try:
                results[idx] = getattr(scared.des, mode)(blk, key, at_des=p, at_round=rnd, after_step=step)
            except Exception as e:
                errors.append((idx, repr(e)[:200]))
    old = sys.getswitchinterval()
    sys.setswitchinterval(1e-5)
    try:
        ths = [threading.Thread(target=work, args=(j,)) for j in range(2)]
        for th in ths:
            th.start()
        for th in ths:
            th.join()
    finally:
        sys.setswitchinterval(old)
    t.check(not errors, 'concurrent_call_failed', lambda: dict(errors=errors[:3]))
    for idx, (jj, mode, key, blk, p, rnd, step) in enumerate(jobs):
        if idx not in results:
            continue
        rows = blk.reshape(-1, 8)[:2]
        exp = []
        for row in rows:
            tr = D.tdes_trace(row.tolist(), key.tolist(), mode)
            exp.append(D.stop_value(tr[p][0], tr[p][1], tr[p][2], rnd, step))
        got = np.asarray(results[idx])
        got = got.reshape(-1, got.shape[-1])[:2]
        t.count('concurrent_calls')
        t.count('stop_points')
        t.check(np.array_equal(got, np.array(exp, dtype='uint8')), 'result_depends_on_a_concurrent_call', lambda: dict(job=idx, thread=jj, mode=mode, at_des=p, at_round=rnd, after_step=step))
    for c in ('roundtrips', 'inputs_unchanged', 'templates_checked', 'primitive_values', 'blocks', 'history_calls'):
        t.count(c, 0)
    return t.result(sig='threads', sample=dict(case=case, calls=len(jobs)))


def _history(t, case):
    """Call sequences on shared key / block buffers rewritten in place; earlier results must stay what they were."""
    import scared
    rng = np.random.default_rng(case['sub'])
    kbuf = {(kf, many): (np.zeros((3, kf), dtype='uint8') if many else np.zeros(kf, dtype='uint8')) for kf in KEYFORMS for many in (False, True)}
    bbuf = {many: (np.zeros((3, 8), dtype='uint8') if many else np.zeros(8, dtype='uint8')) for many in (False, True)}
    log, kept = [], []
    for c in range(case['calls']):
        kf = int(rng.choice(KEYFORMS)) if rng.random() < 0.4 or not log else log[-1][0]
        many_k, many_b = bool(rng.random() < 0.3), bool(rng.random() < 0.4)
        kb, bb = kbuf[(kf, many_k)], bbuf[many_b]
        if rng.random() < 0.8 or c == 0:
            kb[...] = rng.integers(0, 64 if kf >= 128 else 256, kb.shape)
        if rng.random() < 0.8 or c == 0:
            bb[...] = rng.integers(0, 256, bb.shape)
        mode = ['encrypt', 'decrypt'][int(rng.integers(2))]
        fn = getattr(scared.des, mode)
        npass = {8: 1, 16: 3, 24: 3, 128: 1, 256: 3, 384: 3}[kf]
        full = rng.random() < 0.35
        p, rnd, step = int(rng.integers(npass)), int(rng.integers(16)), int(rng.integers(10))
        snap = (kb.tobytes(), bb.tobytes())
        got = fn(bb, kb) if full else fn(bb, kb, at_des=p, at_round=rnd, after_step=step)
        n = 3 if (many_k or many_b) else 1
        exp = []
        for i in range(n):
            tr = D.tdes_trace((bb[i] if many_b else bb).tolist(), (kb[i] if many_k else kb).tolist(), mode)
            exp.append(tr[-1][2] if full else D.stop_value(tr[p][0], tr[p][1], tr[p][2], rnd, step))
        exp = np.array(exp, dtype='uint8')
        exp = exp.reshape((exp.shape[-1],) if n == 1 else (n, exp.shape[-1]))
        log.append((kf, mode, 'full' if full else (p, rnd, step), many_k, many_b))
        for (old_arr, old_copy, old_call) in kept:
            t.check(np.array_equal(old_arr, old_copy), 'earlier_result_overwritten_by_later_call', lambda: dict(case=case, call=c, earlier_call=old_call, history=log[-4:]))
        kept = (kept + [(got, np.array(got, copy=True), c)])[-3:]
        t.count('stop_points')
        t.count('history_calls')
        t.count('blocks', n)
        t.check(np.shape(got) == exp.shape and np.array_equal(got, exp), 'result_depends_on_earlier_calls',
                lambda: dict(case=case, call=c, history=log[-4:], got=np.asarray(got).reshape(-1, np.shape(got)[-1])[0].tolist(), expected=exp.reshape(-1, exp.shape[-1])[0].tolist()))
        t.check((kb.tobytes(), bb.tobytes()) == snap, 'input_modified', lambda: dict(case=case, call=c))
    t.check(_shared_digest() == _S0, 'shared_round_template_modified', lambda: dict(case=case))
    for c in ('roundtrips', 'inputs_unchanged', 'templates_checked', 'primitive_values'):
        t.count(c, 0)
    return t.result(sig=f"history|{case['sub']}", sample=dict(case=case, last_calls=log[-5:]))


def _primitives(t, case):
    import scared
    S = scared.des
    rng = np.random.default_rng(11)
    # S-boxes: all 64 inputs of each box, other boxes random
    for box in range(8):
        st = rng.integers(0, 64, (64, 8)).astype('uint8')
        st[:, box] = np.arange(64)
        st = _ro(st)
        got = S.sboxes(st)
        exp = np.array([D.sbox_layer(r) for r in st.tolist()], dtype='uint8')
        t.count('primitive_values', 64)
        t.check(got.shape == st.shape and np.array_equal(got, exp), 'prim_sboxes', lambda: dict(box=box, first_bad=st[int(np.argwhere(np.any(got != exp, axis=1))[0][0])].tolist()))

    def inputs(width, maxv=256):
        rows = [[0] * width, [maxv - 1] * width]
        for i in range(width):
            for v in range(maxv):
                r = [0] * width
                r[i] = v
                rows.append(r)
        rows += rng.integers(0, maxv, (300, width)).tolist()
        return rows

    def bits_of(row, w):
        return [(b >> (w - 1 - i)) & 1 for b in row for i in range(w)]

    specs = [
        ('initial_permutation', inputs(8), lambda r: D.pack(D.perm(bits_of(r, 8), D.IP), 8)),
        ('final_permutation', inputs(8), lambda r: D.pack(D.perm(bits_of(r, 8), D.FP), 8)),
        ('expansive_permutation', inputs(4), lambda r: D.pack(D.perm(bits_of(r, 8), D.E), 6)),
        ('permutation_p', inputs(8, 16), lambda r: D.pack(D.perm(bits_of(r, 4), D.P), 8)),
        ('inv_permutation_p', inputs(4), lambda r: D.pack(D.perm(bits_of(r, 8), D.PINV), 4)),
    ]
    for name, rows, ref in specs:
        arr = _ro(np.array(rows, dtype='uint8'))
        snap = arr.tobytes()
        got = getattr(S, name)(arr)
        exp = np.array([ref(r) for r in rows], dtype='uint8')
        t.count('primitive_values', len(rows))
        ok = got.shape == exp.shape and np.array_equal(got, exp)
        t.check(ok, 'prim_' + name, lambda: dict(primitive=name, first_bad=rows[int(np.argwhere(np.any(np.asarray(got).reshape(exp.shape) != exp, axis=1))[0][0])] if np.size(got) == exp.size else np.shape(got)))
        one = getattr(S, name)(_ro(np.array(rows[5], dtype='uint8')))
        t.check(np.array_equal(one, exp[5]), 'prim_1d_' + name, None)
        t.check(arr.tobytes() == snap, 'input_modified', name)
    a, b = rng.integers(0, 64, (5, 8)).astype('uint8'), rng.integers(0, 64, (5, 8)).astype('uint8')
    t.check(np.array_equal(S.add_round_key(_ro(a), _ro(b)), np.array(a.tolist()) ^ np.array(b.tolist())), 'prim_add_round_key', None)
    for c in ('stop_points', 'blocks', 'roundtrips', 'inputs_unchanged', 'templates_checked'):
        t.count(c, 0)
    return t.result(sig='primitives', sample=dict(case=case, comparisons=t.checks, values=t.counters.get('primitive_values')))
