"""C17 - on simulated leakage every attack ranks the true key first.

End-to-end run of the public pipeline (Container -> selection function -> model -> distinguisher -> discriminant).
The leakage is simulated from the REFERENCE cipher's state word (vf.refs, not from the selection function under
test): samples = uniform noise in +-0.5, plus model(state word) at one known sample per attacked word.
Oracle: scores.argmax(axis=0) == selection_function.compute_expected_key(key=...)[words], and the expected key
itself equals the reference round key.  The relative margin between the best and the second score is recorded;
a margin below 0.05 is counted `inconclusive_margin` (a statistical near-tie is not a code defect).
"""
import numpy as np

from .. import core, gen
from ..refs import aes_ref as A
from ..refs import des_ref as D

ID = 'C17'
LEVEL = 'exploration'
WORKERS = {'quick': 12, 'thorough': 14}
BUDGET_S = {'quick': 110, 'thorough': 700}
NUMBA_THREADS = 2
MAX_INCONCLUSIVE_FRACTION = 0.05
REQUIRED_COUNTERS = ['attacks_run', 'words_ranked', 'true_key_first', 'aes_attacks', 'des_attacks', 'template_attacks', 'attack:CPA', 'attack:DPA', 'attack:ANOVA', 'attack:NICV',
                     'attack:SNR', 'attack:MIA']
ATTACKS = ['CPA', 'DPA', 'ANOVA', 'NICV', 'SNR', 'MIA']
AES_T = [('encrypt', 'FirstSubBytes'), ('encrypt', 'LastSubBytes'), ('encrypt', 'DeltaRLastRounds'), ('decrypt', 'FirstSubBytes'), ('decrypt', 'LastSubBytes'), ('decrypt', 'DeltaRFirstRounds')]
AES_ARK = [('encrypt', 'FirstAddRoundKey'), ('encrypt', 'LastAddRoundKey'), ('decrypt', 'FirstAddRoundKey'), ('decrypt', 'LastAddRoundKey')]
DES_T = [(ns, nm) for ns in ('encrypt', 'decrypt') for nm in ('FirstSboxes', 'LastSboxes', 'FeistelRFirstRounds', 'FeistelRLastRounds', 'DeltaRFirstRounds', 'DeltaRLastRounds')]
DES_ARK = [('encrypt', 'FirstAddRoundKey'), ('encrypt', 'LastAddRoundKey')]
RULE = ('a case = (cipher AES-128/192/256 | DES, selection function (all non-linear first / last round targets of both namespaces; AddRoundKey targets with CPA + '
        'nanmax only), attack class CPA | DPA | ANOVA | NICV | SNR | MIA | TemplateDPA | Template, 1-2 attacked words, batch size 100 | 400 | N, random key, '
        '1500 (AES) / 1200 (DES) traces, noise +-0.5); non-trivial = the rank of the expected key was judged; distinct by all of these')
ASSUMPTIONS = ['statistical: the margin is fixed wide (measured 0.56-0.99, single-bit DES DPA 0.12-0.25); cases whose margin is below 0.05 are inconclusive, never violations',
               'for partition based attacks and single-bit DPA on XOR-only (AddRoundKey) targets complementary guesses give identical partitions - a mathematical tie - '
               'so those targets are attacked with CPA + nanmax only', 'static TemplateAttack has no key guess: the candidate is the template class, the verdict is that the '
               'class of the (fixed) true intermediate value gets the highest score', 'the reference ciphers are correct (self-tested)']


def setup():
    try:
        A.self_test()
        D.self_test()
    except Exception as e:
        raise core.Inconclusive(f'reference self-test failed: {e!r}')


def cases(tier, seed):
    out = []
    k = 0
    # deciding grid: every attack class x every target family once (namespace alternating), AddRoundKey with CPA, templates
    for i, att in enumerate(ATTACKS):
        for j, (ns, nm) in enumerate(AES_T):
            if tier == 'quick' and (i + j) % 2:
                continue
            out.append(dict(gen='atk', cipher='aes', ns=ns, name=nm, attack=att, sub=core.subseed('C17', seed, k), must=True))
            k += 1
        for j, (ns, nm) in enumerate(DES_T):
            if tier == 'quick' and (i + j) % 3:
                continue
            out.append(dict(gen='atk', cipher='des', ns=ns, name=nm, attack=att, sub=core.subseed('C17', seed, k), must=True))
            k += 1
    for ns, nm in AES_ARK:
        out.append(dict(gen='atk', cipher='aes', ns=ns, name=nm, attack='CPA', sub=core.subseed('C17', seed, k), must=True))
        k += 1
    for ns, nm in DES_ARK:
        out.append(dict(gen='atk', cipher='des', ns=ns, name=nm, attack='CPA', sub=core.subseed('C17', seed, k), must=True))
        k += 1
    # the identity model (the value of the state word itself leaks): intermediate values up to 255, not only 0..8
    for j, (ns, nm) in enumerate([x for x in AES_T if 'AddRoundKey' not in x[1]][:3]):
        out.append(dict(gen='atk', cipher='aes', ns=ns, name=nm, attack='CPA', model='value', sub=core.subseed('C17v', seed, j), must=True))
    for kind in ('tdpa', 'tstatic'):
        for cipher in ('aes', 'des'):
            out.append(dict(gen='tmpl', kind=kind, cipher=cipher, sub=core.subseed('C17t', seed, k), must=True))
            k += 1
    rs = np.random.default_rng(core.subseed('C17r', seed))
    n_rand = 40 if tier == 'quick' else 1500
    for j in range(n_rand):
        r = rs.random()
        if r < 0.1:
            out.append(dict(gen='tmpl', kind=['tdpa', 'tstatic'][int(rs.integers(2))], cipher=['aes', 'des'][int(rs.integers(2))], sub=int(rs.integers(2 ** 62))))
        elif r < 0.55:
            ns, nm = (AES_T + AES_ARK)[int(rs.integers(len(AES_T) + len(AES_ARK)))]
            out.append(dict(gen='atk', cipher='aes', ns=ns, name=nm, attack='CPA' if 'AddRoundKey' in nm else ATTACKS[int(rs.integers(6))], sub=int(rs.integers(2 ** 62))))
        else:
            ns, nm = (DES_T + DES_ARK)[int(rs.integers(len(DES_T) + len(DES_ARK)))]
            out.append(dict(gen='atk', cipher='des', ns=ns, name=nm, attack='CPA' if 'AddRoundKey' in nm else ATTACKS[int(rs.integers(6))], sub=int(rs.integers(2 ** 62))))
    return out


# ---------------------------------------------------------------------------------------------------------
def _aes_state(name, first, block, key):
    kind = name.replace('First', '').replace('Last', '').replace('Rounds', '')
    if first:
        st, _ = A.enc_states(block, key)
        return st[(0, 3)] if kind == 'AddRoundKey' else st[(1, 0)]
    st, _ = A.dec_states(block, key)
    if kind == 'AddRoundKey':
        return st[(0, 0)]
    if kind == 'SubBytes':
        return A.shr(st[(0, 3)])
    return A.shr([a ^ b for a, b in zip(st[(0, 3)], block)])


def _des_state(name, first, block, rks):
    step = dict(AddRoundKey=2, Sboxes=3, FeistelR=7, DeltaR=8)[name.replace('First', '').replace('Last', '').replace('Rounds', '')]
    rec, pre, ct = D.des_trace(block, rks if first else rks[::-1])
    return D.stop_value(rec, pre, ct, 0, step)


def _setup_cipher(case, rng, n):
    """data (n, block bytes), per-trace targeted state words (n, nwords), expected round key, tag, constructor, master key."""
    import scared
    cipher, ns, name = case['cipher'], case.get('ns', 'encrypt'), case['name']
    first = (ns == 'encrypt' and 'First' in name) or (ns == 'decrypt' and 'Last' in name)
    tag = 'plaintext' if first else 'ciphertext'
    if cipher == 'aes':
        ks = int(rng.choice([16, 16, 24, 32]))
        key = [int(v) for v in rng.integers(0, 256, ks)]
        data = rng.integers(0, 256, (n, 16))
        state = np.array([_aes_state(name, first, [int(v) for v in row], key) for row in data])
        rk = A.expand(key)
        exp = np.array(rk[0] if first else rk[-1])
        ctor = getattr(getattr(scared.aes.selection_functions, ns), name)
    else:
        key = [int(v) for v in rng.integers(0, 256, 8)]
        rks = D.round_keys(key)
        data = rng.integers(0, 256, (n, 8))
        state = np.array([_des_state(name, first, [int(v) for v in row], rks) for row in data])
        exp = np.array(rks[0] if first else rks[15])
        ctor = getattr(getattr(scared.des.selection_functions, ns), name)
    return data.astype('uint8'), state.astype('uint8'), exp, tag, ctor, np.array(key, dtype='uint8')


def _simulate(rng, leak, T=6, constant=False):
    """leak (n, w<=3) -> float32 samples with the leakage of word j at sample 1 + 3*j and uniform noise in +-0.5 everywhere;
    optionally some samples are constant (zero padding / saturation): the statistic is undefined there and must be ignored by the discriminant."""
    n = leak.shape[0]
    T = max(T, 3 * leak.shape[1] + 1)
    s = rng.uniform(-0.5, 0.5, (n, T))
    pos = []
    for j in range(leak.shape[1]):
        s[:, 1 + 3 * j] += leak[:, j]
        pos.append(1 + 3 * j)
    if constant:
        s[:, 0] = 0.0
        s[:, -1] = 7.0
    return s.astype('float32'), pos


def _judge(t, scores, expected, info, sign=1.0):
    scores = np.asarray(scores, dtype=float)
    if scores.ndim == 1:
        scores = scores[:, None]
    for w in range(scores.shape[1]):
        col = scores[:, w]
        t.count('words_ranked')
        if not np.all(np.isfinite(col)):
            # a NaN / inf score for some guess: rank among the finite ones, the expected key must be finite
            if not np.isfinite(col[int(expected[w])]):
                t.check(False, 'expected_key_score_not_finite', dict(info, word=w, score=float(col[int(expected[w])])))
                continue
            col = np.where(np.isfinite(col), col, -np.inf)
        order = np.argsort(col)
        best, second = int(order[-1]), int(order[-2])
        margin = float((col[best] - col[second]) / (abs(col[best]) + 1e-300))
        t.metric('min_margin_neg', -margin)
        if best == int(expected[w]):
            if margin < 0.05:
                t.count('inconclusive_margin')
            else:
                t.count('true_key_first')
                t.check(True, '')
        else:
            lead = float((col[best] - col[int(expected[w])]) / (abs(col[best]) + 1e-300))
            if lead < 0.05:
                t.count('inconclusive_margin')
            else:
                rank = int(np.where(order[::-1] == int(expected[w]))[0][0])
                t.check(False, 'true_key_not_ranked_first', dict(info, word=w, best_guess=best, expected_key=int(expected[w]), rank_of_expected=rank, best_score=float(col[best]),
                                                                 expected_score=float(col[int(expected[w])])))


def run_attack(case):
    import scared
    t = core.Tally()
    rng = gen.rng_of(case['sub'])
    cipher, att = case['cipher'], case['attack']
    n = 1500 if cipher == 'aes' else 1200
    data, state, exp_rk, tag, ctor, key = _setup_cipher(case, rng, n)
    nw = state.shape[1]
    words = rng.choice(nw, int(rng.integers(1, 4)), replace=False).tolist()          # in any order: descending / consecutive / scattered
    if rng.random() < 0.3 and nw >= 4:
        a0 = int(rng.integers(0, nw - 2))
        words = [a0 + 2, a0 + 1, a0] if rng.random() < 0.5 else [a0 + 1, a0]          # consecutive indices, not ascending
    if rng.random() < 0.5:
        words = sorted(words)
    wsel = words if rng.random() < 0.7 or len(words) > 1 else words[0]
    ng_all = 256 if cipher == 'aes' else 64
    guess_vals = None
    if rng.random() < 0.35:
        # a subset / another order of the guesses (it contains the true key values): scores are then indexed by position in `guesses`
        must_have = set(int(exp_rk[w]) for w in words)
        size = int(rng.integers(max(len(must_have) + 2, ng_all // 4), ng_all + 1))
        pool = [g for g in rng.permutation(ng_all).tolist() if g not in must_have][:size - len(must_have)] + sorted(must_have)
        guess_vals = np.array(pool, dtype='uint8')[rng.permutation(len(pool))]
        sf = ctor(words=wsel, guesses=guess_vals)
        t.count('attacks_with_guess_subset')
    else:
        sf = ctor(words=wsel)
    st = state[:, words]
    hw = np.array([[int(v).bit_count() for v in row] for row in st], dtype=float)
    bit = int(rng.integers(0, 8 if (cipher == 'aes' or 'AddRoundKey' in case['name']) else 4))
    if cipher == 'des' and 'AddRoundKey' in case['name']:
        bit = int(rng.integers(0, 6))
    mono = ((st >> bit) & 1).astype(float)
    leak = mono * 4 if att == 'DPA' else hw
    value_model = case.get('model') == 'value' or (att == 'CPA' and cipher == 'aes' and 'AddRoundKey' not in case['name'] and rng.random() < 0.25)
    if value_model:
        leak = st.astype(float) / 16.0
        t.count('attacks_with_value_model')
    constant = bool(rng.random() < 0.3)
    samples, pos = _simulate(rng, leak, constant=constant)
    if constant:
        t.count('traces_with_constant_samples')
    ng_ = 256 if cipher == 'aes' else 64
    bs = [100, 400, n, ng_, ng_][int(rng.integers(5))]          # incl. batches of exactly as many traces as guesses
    meta = {tag: data}
    if rng.random() < 0.3:
        # unrelated metadata that happens to be called like the arguments of the wrapped functions
        meta['data'] = rng.integers(0, 256, data.shape).astype('uint8')
        meta['counter'] = np.arange(n, dtype='int64').reshape(n, 1)
        t.count('trace_sets_with_a_field_named_data')
    ths = scared.traces.read_ths_from_ram(samples=samples, **meta)
    ark = 'AddRoundKey' in case['name']
    disc = scared.nanmax if ark else [scared.maxabs, scared.maxabs, scared.nanmax][int(rng.integers(3))]
    if att == 'DPA':
        disc = scared.maxabs
    kw = dict(selection_function=sf, discriminant=disc, precision=['float32', 'float64'][int(rng.integers(2))])
    if rng.random() < 0.3:
        kw['convergence_step'] = int(rng.choice([300, 500, 700]))       # scores are computed several times along the run
        t.count('attacks_with_convergence_step')
    maxhw = 8 if cipher == 'aes' else (6 if ark else 4)
    if att == 'CPA':
        a = scared.CPAAttack(model=scared.Value() if value_model else scared.HammingWeight(), **kw)
    elif att == 'DPA':
        a = scared.DPAAttack(model=scared.Monobit(bit), **kw)
    elif att == 'MIA':
        a = scared.MIAAttack(model=scared.HammingWeight(), bin_edges=np.linspace(-1, maxhw + 1, 2 * (maxhw + 2) + 1), partitions=list(range(maxhw + 1)) if rng.random() < 0.5 else None, **kw)
    else:
        a = getattr(scared, att + 'Attack')(model=scared.HammingWeight(), partitions=list(range(maxhw + 1)) if rng.random() < 0.5 else None, **kw)
    info = dict(cipher=cipher, namespace=case.get('ns'), function=case['name'], attack=att, words=words, words_arg=repr(wsel), batch=bs, n=n, discriminant=disc.__name__, precision=kw['precision'],
                key=key.tolist(), bit=bit if att == 'DPA' else None)
    try:
        scared.set_batch_size(bs)
        a.run(scared.Container(ths))
    finally:
        scared.set_batch_size(None)
    t.count('attacks_run')
    t.count('attack:' + att)
    t.count(cipher + '_attacks')
    ek = np.asarray(sf.compute_expected_key(key=key))
    t.check(ek.shape == exp_rk.shape and bool(np.array_equal(ek, exp_rk)), 'expected_key_is_not_the_targeted_round_key', lambda: dict(info, got=ek.tolist(), expected=exp_rk.tolist()))
    exp = exp_rk[words]
    scores = np.asarray(a.scores)
    ng = 256 if cipher == 'aes' else 64
    if guess_vals is not None:
        ng = len(guess_vals)
        pos_of = {int(g): i for i, g in enumerate(guess_vals.tolist())}
        exp = np.array([pos_of[int(v)] for v in exp])            # position of the true key value in the guesses array
        info['guesses'] = f'{ng} of {ng_all}, shuffled'
    if not t.check(scores.shape in ((ng, len(words)), (ng,)), 'scores_layout', lambda: dict(info, got=scores.shape)):
        return t.result()
    _judge(t, scores, exp, info)
    return t.result(sig=f"{cipher}|{case.get('ns')}|{case['name']}|{att}|{words}|{bs}|{disc.__name__}|{kw['precision']}", sample=dict(case=case, derived=info, min_margin=-t.metrics.get('min_margin_neg', 0)))


def run_template(case):
    import scared
    t = core.Tally()
    rng = gen.rng_of(case['sub'])
    cipher, kind = case['cipher'], case['kind']
    c2 = dict(case, ns='encrypt', name='FirstSubBytes' if cipher == 'aes' else 'FirstSboxes')
    nb, nm = (2000, 500) if cipher == 'aes' else (1500, 400)
    if kind == 'tstatic':
        nm = 60
    data_b, state_b, exp_rk, tag, ctor, key = _setup_cipher(c2, rng, nb)
    nw = state_b.shape[1]
    w = int(rng.integers(nw))
    maxhw = 8 if cipher == 'aes' else 4

    def hw_of(st):
        return np.array([int(v).bit_count() for v in st], dtype=float)

    sb, _ = _simulate(rng, hw_of(state_b[:, w])[:, None], T=4)
    # matching set under the SAME key
    if cipher == 'aes':
        data_m = rng.integers(0, 256, (nm, 16)).astype('uint8')
        if kind == 'tstatic':
            data_m[:] = data_m[0]
        state_m = np.array([_aes_state('FirstSubBytes', True, [int(v) for v in row], key.tolist()) for row in data_m])
    else:
        data_m = rng.integers(0, 256, (nm, 8)).astype('uint8')
        if kind == 'tstatic':
            data_m[:] = data_m[0]
        rks = D.round_keys(key.tolist())
        state_m = np.array([_des_state('FirstSboxes', True, [int(v) for v in row], rks) for row in data_m])
    sm, _ = _simulate(rng, hw_of(state_m[:, w])[:, None], T=4)
    # profiling: the reverse selection function gives the true intermediate word (known key) through scared's own cipher
    if cipher == 'aes':
        @scared.reverse_selection_function(words=w)
        def rsf(plaintext, key):
            return scared.aes.encrypt(plaintext, key[0], at_round=1, after_step=0)
    else:
        @scared.reverse_selection_function(words=w)
        def rsf(plaintext, key):
            return scared.des.encrypt(plaintext, key[0], at_round=0, after_step=scared.des.Steps.SBOXES)
    tb = scared.traces.read_ths_from_ram(samples=sb, plaintext=data_b, key=np.tile(key, (nb, 1)))
    tm = scared.traces.read_ths_from_ram(samples=sm, plaintext=data_m)
    prec = ['float32', 'float64'][int(rng.integers(2))]
    bs = [100, 400, nb][int(rng.integers(3))]
    info = dict(cipher=cipher, kind=kind, word=w, build_traces=nb, match_traces=nm, precision=prec, batch=bs, key=key.tolist())
    t.count('template_attacks')
    t.count('attacks_run')
    t.count(cipher + '_attacks')
    try:
        scared.set_batch_size(bs)
        if kind == 'tdpa':
            sf = ctor(words=w)
            a = scared.TemplateDPAAttack(container_building=scared.Container(tb), reverse_selection_function=rsf, selection_function=sf, model=scared.HammingWeight(),
                                         partitions=list(range(maxhw + 1)), precision=prec)
            a.build()
            a.run(scared.Container(tm))
            exp = np.asarray(sf.compute_expected_key(key=key))[[w]]
            t.check(int(exp[0]) == int(exp_rk[w]), 'expected_key_is_not_the_targeted_round_key', lambda: dict(info, got=int(exp[0]), expected=int(exp_rk[w])))
            _judge(t, np.asarray(a.scores).reshape(-1, 1), exp, info)
        else:
            a = scared.TemplateAttack(container_building=scared.Container(tb), reverse_selection_function=rsf, model=scared.HammingWeight(), partitions=list(range(maxhw + 1)), precision=prec)
            a.build()
            a.run(scared.Container(tm))
            true_class = int(state_m[0, w]).bit_count()
            info['true_class'] = true_class
            _judge(t, np.asarray(a.scores).reshape(-1, 1), np.array([true_class]), info)
    finally:
        scared.set_batch_size(None)
    for c in ('attack:CPA', 'attack:DPA', 'attack:ANOVA', 'attack:NICV', 'attack:SNR', 'attack:MIA'):
        t.count(c, 0)
    return t.result(sig=f"tmpl|{cipher}|{kind}|{w}|{prec}|{bs}", sample=dict(case=case, derived=info, min_margin=-t.metrics.get('min_margin_neg', 0)))


def run_case(case):
    r = run_attack(case) if case['gen'] == 'atk' else run_template(case)
    for c in REQUIRED_COUNTERS:
        r.setdefault('counters', {}).setdefault(c, 0)
    return r
