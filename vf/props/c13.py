"""C13 - the MIA result is the mutual information H(B) - H(B|V) between binned samples and value classes.

Oracle: vf.oracles.mutual_information (joint counts with exact edge comparisons - numpy.histogram semantics on
the configured edges - and math.log), independent of scared.  Monitors: hostile samples (on every edge, one ulp
either side, outside) through the real JIT kernel in a crash-isolated worker *and* through the interpreter-mode
bounds sanitizer (an out-of-range bin index raises IndexError there instead of corrupting memory); the
accumulator itself is compared with the oracle's joint histogram (conservation: every in-range sample of a
declared class is counted exactly once, in its own sample's histogram).  Edge-list validation sweep.
"""
import math

import numpy as np

from .. import core, gen, subjects, tol, oracles
from ..monitors import KernelMonitor, Tracked, interpreted

ID = 'C13'
LEVEL = 'exploration'
WORKERS = {'quick': 8, 'thorough': 14}
BUDGET_S = {'quick': 70, 'thorough': 480}
REQUIRED_COUNTERS = ['mi_entries', 'edge_samples', 'ulp_samples', 'histogram_cells_checked', 'nonuniform_lists', 'uniform_lists', 'sanitizer_runs',
                     'independence_cases', 'empty_bin_twins', 'empty_class_twins']
RULE = ('mi cases = (trace dtype int|float32|float64, 1..300 bins, edges dyadic | inexact width (0..0.7 in 7, 0..255 in 10, ...), samples placed on '
        'every interior edge, on the last edge, one ulp either side of every edge, outside, and random; class sets with gaps / empty classes / '
        'undeclared values; bins_number-only mode); validation cases = strictly increasing non-uniform lists (widening, narrowing, compensating, '
        'single perturbed width, >= 1% of the width) and uniform lists (linspace / arange / range / list) over widths 2^-6..100 and offsets; '
        'non-trivial = at least one MI entry or one list decided; distinct by generator parameters')
ASSUMPTIONS = ['bin b = [edges[b], edges[b+1]) with the last edge inclusive (numpy.histogram semantics), evaluated on the float64 edges the object holds',
               'only clearly uniform (linspace/arange) and clearly non-uniform (>= 1% of the width, |edges| <= 400 widths) lists are generated',
               'columns with no in-range sample of a declared class are not judged (MI undefined)']


def cases(tier, seed):
    out = []
    k = 0
    for style in ('dyadic', 'inexact', 'integer', 'bins_only'):
        for tdt in ('uint8', 'int16', 'float32', 'float64'):
            out.append(dict(gen='mi', style=style, tdtype=tdt, sub=core.subseed('C13', seed, k), must=True))
            k += 1
    # batches of one run handed over in different sample types (8-bit signed and unsigned, 16-bit, floating point)
    # 8-bit counters: every (bin, class) cell fits, the totals over bins / classes do not
    for j in range(4 if tier == 'quick' else 40):
        out.append(dict(gen='mi', style=['integer', 'dyadic'][j % 2], tdtype=['uint8', 'int16', 'float32', 'float64'][j % 4], narrow=True, sub=core.subseed('C13nw', seed, j), must=True))
    for j in range(4 if tier == 'quick' else 60):
        out.append(dict(gen='mi', style='integer', tdtype='int16', mixed=True, sub=core.subseed('C13mx', seed, j), must=True))
    for j in range(6):
        out.append(dict(gen='validation', sub=core.subseed('C13v', seed, j), must=True))
        out.append(dict(gen='sanitizer', sub=core.subseed('C13s', seed, j), must=True))
    out.append(dict(gen='independence', sub=core.subseed('C13i', seed), must=True))
    rs = np.random.default_rng(core.subseed('C13r', seed))
    n_rand = 220 if tier == 'quick' else 6000
    for j in range(n_rand):
        g = ['mi', 'mi', 'mi', 'validation', 'sanitizer', 'independence'][int(rs.integers(6))]
        out.append(dict(gen=g, style=['dyadic', 'inexact', 'integer', 'bins_only'][int(rs.integers(4))], tdtype=['uint8', 'int16', 'float32', 'float64'][int(rs.integers(4))],
                        sub=int(rs.integers(2 ** 62))))
    return out


def _edges(rng, style, tdtype):
    nb = int(rng.choice([1, 2, 3, 7, 10, 16, 49, 128, 300]))
    if style == 'dyadic':
        w = float(rng.choice([0.25, 0.5, 1.0, 2.0, 8.0]))
        lo = float(rng.integers(-8, 8)) * w
        return (lo + w * np.arange(nb + 1)).astype('float64')
    if style == 'integer':
        w = int(rng.integers(1, 6))
        lo = int(rng.integers(-10, 10))
        return np.arange(lo, lo + w * (nb + 1), w)[:nb + 1].astype('float64')
    lo = float(rng.choice([0.0, 0.0, -1.3, 5.1]))
    hi = lo + float(rng.choice([0.7, 255.0, 1.0, 10.0, 98.0, 3.3]))
    return np.linspace(lo, hi, nb + 1)


def _hostile_samples(rng, edges, tdtype, n, T):
    """samples on / one ulp around every edge, outside, and random inside; cast to the trace dtype."""
    dt = np.dtype(tdtype)
    lo, hi = float(edges[0]), float(edges[-1])
    pool, n_edge, n_ulp = [], 0, 0
    for e in edges.tolist():
        if dt.kind == 'f':
            ev = dt.type(e)
            pool += [ev, np.nextafter(ev, dt.type(np.inf)), np.nextafter(ev, dt.type(-np.inf))]
            n_ulp += 2
        else:
            pool += [math.floor(e), math.ceil(e), math.floor(e) - 1, math.ceil(e) + 1]
        n_edge += 1
    span = hi - lo
    pool += [lo - span, hi + span, lo - 1, hi + 1]
    pool = np.array(pool, dtype='float64')
    x = rng.uniform(lo - 0.1 * span, hi + 0.1 * span, (n, T))
    m = rng.random((n, T)) < 0.6
    x[m] = rng.choice(pool, int(m.sum()))
    if dt.kind in 'iu':
        info = np.iinfo(dt)
        x = np.clip(np.round(x), info.min, info.max)
    x = x.astype(dt)
    # guarantee in-range samples in every column
    x[0] = dt.type((lo + hi) / 2) if dt.kind == 'f' else dt.type(np.clip(round((lo + hi) / 2), np.iinfo(dt).min, np.iinfo(dt).max))
    if not (lo <= float(x[0, 0]) < hi):
        x[0] = dt.type(lo) if dt.kind == 'f' else dt.type(np.clip(math.ceil(lo), np.iinfo(dt).min, np.iinfo(dt).max))
    return x, n_edge, n_ulp


def run_case(case):
    t = core.Tally()
    for c in REQUIRED_COUNTERS:
        t.count(c, 0)
    rng = gen.rng_of(case['sub'])
    g = case['gen']
    if g == 'mi':
        return _mi(t, case, rng)
    if g == 'validation':
        return _validation(t, case, rng)
    if g == 'sanitizer':
        return _sanitizer(t, case, rng)
    if g == 'independence':
        return _independence(t, case, rng)
    raise core.Inconclusive('unknown generator')


def _mi(t, case, rng):
    style, tdtype = case['style'], case['tdtype']
    W = int(rng.integers(1, 3))
    T = int(rng.integers(1, 5))
    n = int(rng.choice([5, 30, 120, 400]))
    K = int(rng.choice([1, 2, 3, 9, 12]))
    declared = [int(v) for v in (int(rng.choice([0, 0, 100])) + rng.permutation(K + 2)[:K])]
    pool = declared + [max(declared) + 5]                      # one undeclared value
    ddt = 'uint8'
    data = rng.choice(pool, (n, W)).astype(ddt)
    if K > 2 and rng.random() < 0.5:
        data[data == declared[1]] = declared[0]                # an empty class
    spec = dict(name='mia', partitions=declared)
    mia_prec = [None, 'uint32', 'float64', 'uint16', 'uint8'][int(rng.integers(5))] if not case.get('narrow') else 'uint8'
    if case.get('narrow'):
        n = int(rng.choice([300, 400, 600]))
        data = rng.choice(pool, (n, W)).astype(ddt)
    if mia_prec:
        spec['mia_precision'] = mia_prec
    if style == 'bins_only':
        nb = int(rng.choice([1, 2, 5, 16, 128]))
        spec['bins_number'] = nb
        x = (rng.normal(0, 20, (n, T))).astype(tdtype) if np.dtype(tdtype).kind == 'f' else rng.integers(0, 60, (n, T)).astype(tdtype)
        x[0, 0], x[1, 0] = 0, 59         # the first batch always spans a non-empty window (a constant first batch cannot define bins)
        n_edge = n_ulp = 0
    else:
        edges = _edges(rng, style, tdtype)
        spec['bin_edges'] = edges.tolist()
        spec['edges_as'] = ['array', 'list'][int(rng.integers(2))]
        x, n_edge, n_ulp = _hostile_samples(rng, edges, tdtype, n, T)
    sizes = [n] if rng.random() < 0.5 else gen.split_sizes(rng, n, kmax=3)
    if style == 'bins_only' and sizes[0] < 2:
        sizes = [2, n - 2]
    if style != 'bins_only' and n >= 3 and rng.random() < 0.3:
        # a saturated trace - every sample exactly on the (inclusive) last edge, or beyond it - processed as a batch of its own
        x = np.array(x, copy=True)
        top = np.asarray(spec['bin_edges'], dtype=float)[-1]
        sat = np.full(T, top)
        if rng.random() < 0.5:
            sat[rng.random(T) < 0.5] = top + abs(top) * 0.5 + 1.0
        x[-1] = sat.astype(x.dtype)
        if float(x[-1].astype(float)[0]) in (top, top + abs(top) * 0.5 + 1.0) or np.dtype(x.dtype).kind == 'f':
            sizes = [n - 1, 1] if len(sizes) == 1 else sizes[:-1] + ([sizes[-1] - 1, 1] if sizes[-1] > 1 else [1])
            t.count('saturated_trace_in_its_own_batch')
    bdts = None
    if case.get('mixed'):
        w_ = int(rng.choice([5, 10, 26]))
        edges = np.arange(-130, 261, w_).astype('float64')
        spec['bin_edges'] = edges.tolist()
        sizes = gen.split_sizes(rng, n, kmax=4) if n >= 8 else [n]
        if len(sizes) < 2 and n >= 2:
            sizes = [n // 2, n - n // 2]
        first8 = ['int8', 'uint8'][int(rng.integers(2))]
        bdts = [first8, 'uint8' if first8 == 'int8' else 'int8'] + [['int8', 'uint8', 'int16', 'float32', 'float64', 'int32'][int(rng.integers(6))] for _ in sizes[2:]]
        bdts = bdts[:len(sizes)]
        if rng.random() < 0.3:
            bdts = [bdts[i] for i in rng.permutation(len(bdts))]
        parts = []
        for s_, d_ in zip(sizes, bdts):
            lo_, hi_ = (max(int(np.iinfo(d_).min), -140), min(int(np.iinfo(d_).max), 270)) if np.dtype(d_).kind in 'iu' else (-140, 270)
            parts.append(rng.integers(lo_, hi_ + 1, (s_, T)))
        x = np.concatenate(parts).astype('int64')
        n_edge = n_ulp = 0
        t.count('mixed_sample_type_runs')
    obj = subjects.make(spec)
    pos = 0
    for b_, s in enumerate(sizes):
        obj.update(x[pos:pos + s] if bdts is None else x[pos:pos + s].astype(bdts[b_]), data[pos:pos + s])
        pos += s
    if style == 'bins_only':
        first = x[:sizes[0]]
        edges = np.linspace(float(np.min(first)), float(np.max(first)), spec['bins_number'] + 1)
        t.check(np.array_equal(np.asarray(obj.bin_edges, dtype=float), edges), 'derived_bin_edges_not_linspace_of_first_batch',
                lambda: dict(got=np.asarray(obj.bin_edges).tolist()[:5], expected=edges.tolist()[:5]))
        if float(np.min(first)) == float(np.max(first)):
            return t.result(nontrivial=False, sig='degenerate_window', sample=dict(case=case))
    with np.errstate(all='ignore'):
        if rng.random() < 0.5:
            obj.compute()                       # an earlier request for the result must leave the counts as they are
            t.count('computes_before_the_judged_one')
        got = np.asarray(obj.compute(), dtype=float)
    held_edges = np.asarray(obj.bin_edges, dtype=float)
    val, bins = oracles.mutual_information(x, data, declared, held_edges)
    info = dict(case=case, n=n, T=T, W=W, nbins=len(held_edges) - 1, declared=declared, sizes=sizes, mia_precision=mia_prec, edges=held_edges.tolist()[:6], batch_sample_types=bdts)
    t.count('edge_samples', n_edge)
    t.count('ulp_samples', n_ulp)
    # conservation on the accumulator: the joint histogram by (sample, bin, class, word)
    acc = np.asarray(obj.accumulators)
    exp_acc = np.zeros(acc.shape, dtype='int64')
    cls = {v: i for i, v in enumerate(declared)}
    for i in range(n):
        for w in range(W):
            c = cls.get(int(data[i, w]), -1)
            if c < 0:
                continue
            for s in range(T):
                if bins[i, s] >= 0:
                    exp_acc[s, bins[i, s], c, w] += 1
    if mia_prec == 'uint8':
        if int(exp_acc.max()) > 255:
            # a cell that does not fit the requested counter type is the caller's choice, not judged
            r = core.held(0, nontrivial=False, counters=dict(t.counters, narrow_counter_cell_overflow_not_judged=1))
            r['metrics'] = {}
            return r
        t.count('narrow_counter_cases_with_totals_beyond_the_type', int(exp_acc.sum(axis=(1, 2)).max() > 255))
    t.count('histogram_cells_checked', int(acc.size))
    okacc = acc.shape == exp_acc.shape and np.array_equal(acc.astype('int64'), exp_acc)
    t.check(okacc, 'joint_histogram_differs', lambda: _hist_witness(info, acc, exp_acc, x, held_edges))
    # MI value
    valid = np.array([[any(bins[i, s] >= 0 and int(data[i, w]) in cls for i in range(n)) for s in range(T)] for w in range(W)])
    t.check(got.shape == (W, T), 'result_shape', lambda: dict(info, got_shape=got.shape))
    if got.shape == (W, T):
        t.count('mi_entries', int(valid.sum()))
        bad = valid & ~(np.abs(got - val) <= 1e-9 * (1 + np.abs(val)))
        t.check(not bad.any(), 'mi_value', lambda: dict(info, index=[int(v) for v in np.argwhere(bad)[0]], got=float(got[tuple(np.argwhere(bad)[0])]), expected=float(val[tuple(np.argwhere(bad)[0])])))
        neg = valid & (got < -1e-12)
        t.check(not neg.any(), 'mi_negative', lambda: dict(info, got=got.tolist()))
    # metamorphic: extra empty bins outside the data range (same width) and extra empty classes
    if style in ('dyadic', 'integer') and rng.random() < 0.6 and len(held_edges) < 200:
        w = held_edges[1] - held_edges[0]
        a, b = int(rng.integers(0, 4)), int(rng.integers(1, 4))
        ext = np.concatenate([held_edges[0] - w * np.arange(a, 0, -1), held_edges, held_edges[-1] + w * np.arange(1, b + 1)])
        # keep only the samples that were in range before, and move the last-edge samples strictly inside
        keep = x.astype(float)
        xin = np.where((keep >= held_edges[0]) & (keep < held_edges[-1]), x, x[0][None, :])      # row 0 is usually in range
        fin = xin.astype(float)
        if not bool(np.all((fin >= held_edges[0]) & (fin < held_edges[-1]))):
            # the added bins would not be empty (row 0 itself lies outside the edges): the relation does not apply to this workload
            t.count('empty_bin_twin_not_applicable')
        else:
            o1 = subjects.make(dict(spec, bin_edges=held_edges.tolist()))
            o2 = subjects.make(dict(spec, bin_edges=ext.tolist()))
            o1.update(xin, data)
            o2.update(xin, data)
            with np.errstate(all='ignore'):
                r1, r2 = np.asarray(o1.compute(), dtype=float), np.asarray(o2.compute(), dtype=float)
            t.count('empty_bin_twins')
            ok = np.allclose(r1, r2, rtol=0, atol=1e-9, equal_nan=True)
            t.check(ok, 'empty_bins_change_result', lambda: dict(info, extended_edges=ext.tolist()[:8], a=r1.tolist(), b=r2.tolist()))
    if rng.random() < 0.5:
        sup = declared + [max(declared) + 9, max(declared) + 17]
        o3 = subjects.make(dict(spec, partitions=sup, bin_edges=held_edges.tolist(), bins_number=None))
        o3.update(x, data)
        with np.errstate(all='ignore'):
            r3 = np.asarray(o3.compute(), dtype=float)
        t.count('empty_class_twins')
        t.check(np.allclose(np.where(valid, got, 0), np.where(valid, r3, 0), rtol=0, atol=1e-9), 'empty_classes_change_result', lambda: dict(info, a=got.tolist(), b=r3.tolist()))
    return t.result(sig=f"mi|{style}|{tdtype}|{n}x{T}x{W}|{len(held_edges)}|{K}|{mia_prec}|{len(sizes)}", sample=dict(info, entries=int(valid.sum())))


def _hist_witness(info, acc, exp_acc, x, edges):
    if acc.shape != exp_acc.shape:
        return dict(info, got_shape=acc.shape, expected_shape=exp_acc.shape)
    idx = np.argwhere(acc.astype('int64') != exp_acc)
    s, b, c, w = [int(v) for v in idx[0]]
    return dict(info, cell=dict(sample=s, bin=b, cls=c, word=w), got=int(acc[s, b, c, w]), expected=int(exp_acc[s, b, c, w]), n_cells_bad=len(idx),
                bin_interval=[float(edges[b]), float(edges[b + 1])], column_values=[float(v) for v in x[:12, s]])


def _independence(t, case, rng):
    """bins and classes independent in the sample (product design) => MI = 0 up to rounding."""
    nb = int(rng.choice([2, 3, 8]))
    K = int(rng.choice([2, 3, 5]))
    rep = int(rng.integers(1, 4))
    edges = np.arange(nb + 1).astype('float64')
    mult = rng.integers(1, 4, nb)            # marginal of the bins
    xs, ds = [], []
    for c in range(K):
        for r in range(rep * (c + 1)):       # unequal class sizes, same conditional distribution
            for b in range(nb):
                xs += [b + 0.5] * int(mult[b])
                ds += [c] * int(mult[b])
    p = rng.permutation(len(xs))
    x = np.array(xs)[p][:, None].astype(['float32', 'float64'][int(rng.integers(2))])
    d = np.array(ds, dtype='uint8')[p][:, None]
    obj = subjects.make(dict(name='mia', partitions=list(range(K)), bin_edges=edges.tolist()))
    for tr, da in gen.batches((x, d), gen.split_sizes(rng, len(x), kmax=4)):
        obj.update(tr, da)
    got = float(np.asarray(obj.compute()).ravel()[0])
    t.count('independence_cases')
    t.check(abs(got) <= 1e-12, 'mi_not_zero_under_independence', lambda: dict(nbins=nb, classes=K, got=got))
    return t.result(sig=f"ind|{nb}|{K}|{rep}|{mult.tolist()}", sample=dict(case=case, nbins=nb, classes=K, traces=len(x), got=got))


def _nonuniform(rng):
    nb = int(rng.choice([2, 3, 4, 5, 6, 10, 40, 128]))
    w = float(rng.choice([2 ** -6, 0.1, 1.0, 3.0, 100.0]))
    widths = np.full(nb, w)
    kind = ['widening', 'narrowing', 'compensating', 'single', 'two'][int(rng.integers(5))]
    r = float(rng.choice([1.011, 1.05, 1.5, 2.0]))
    if kind == 'widening':
        widths = w * r ** np.arange(nb) if nb <= 40 else w * (1 + 0.02 * np.arange(nb))
    elif kind == 'narrowing':
        widths = (w * r ** np.arange(nb))[::-1] if nb <= 40 else (w * (1 + 0.02 * np.arange(nb)))[::-1]
    elif kind == 'compensating':
        if nb < 3:
            nb, widths = 3, np.full(3, w)
        i = int(rng.integers(1, nb - 1))
        widths[i] = w * r            # first and last width equal: the telescoping sum is zero
    elif kind == 'single':
        widths[int(rng.integers(nb))] = w * r
    else:
        i, j = rng.choice(nb, 2, replace=False) if nb >= 2 else (0, 0)
        widths[i] = w * r
        widths[j] = w / r
    lo = float(rng.uniform(-50, 50)) * w
    if rng.random() < 0.3 and r >= 1.5 and w >= 1.0:
        lo = float(rng.choice([1e5, 1e6, -3e5]))         # edge values much larger than the irregularity of the widths (w * (r - 1) >= 0.5)
    far = rng.random()
    if far < 0.25 and w >= 0.1:
        # edge values so large that the irregularity of the widths (>= 1 % of a width) is tiny next to them, yet far above their rounding
        lo = float(rng.choice([1e9, 1e10, -4e9, 2.0 ** 33]))
        kind += '@far'
    elif far < 0.4:
        # narrow bins far from zero, all edges exactly representable: widths of a few 2^-20 around 1000
        lo = 1024.0
        widths = widths / w * 2.0 ** -20
        kind += '@narrow'
    edges = lo + np.concatenate([[0.0], np.cumsum(widths)])
    return kind, edges


def _uniform(rng):
    nb = int(rng.choice([1, 2, 3, 7, 10, 128, 300]))
    w = float(rng.choice([2 ** -6, 0.1, 1.0, 3.0, 100.0, 0.7 / 7, 255 / 10]))
    lo = float(rng.uniform(-50, 50)) * w
    kind = ['linspace', 'arange', 'range', 'list', 'int_array'][int(rng.integers(5))]
    if kind == 'linspace':
        return kind, np.linspace(lo, lo + nb * w, nb + 1)
    if kind == 'arange':
        return kind, (lo + w * np.arange(nb + 1))
    if kind == 'range':
        s = int(rng.integers(1, 9))
        a = int(rng.integers(-100, 100))
        return kind, range(a, a + s * (nb + 1), s)
    if kind == 'list':
        return kind, np.linspace(lo, lo + nb * w, nb + 1).tolist()
    s = int(rng.integers(1, 9))
    a = int(rng.integers(-100, 100))
    return kind, np.arange(a, a + s * (nb + 1), s)


def _validation(t, case, rng):
    import scared
    from scared.analysis import MIAAttack, MIAReverse  # noqa: F401

    @scared.reverse_selection_function
    def rsf(v):
        return v

    def construct(edges, how):
        if how == 0:
            return scared.MIADistinguisher(bin_edges=edges)
        if how == 1:
            o = scared.MIADistinguisher()
            o.bin_edges = edges
            return o
        return scared.MIAReverse(bin_edges=edges, selection_function=rsf, model=scared.Value())

    for _ in range(40):
        kind, edges = _nonuniform(rng)
        how = int(rng.integers(3))
        arg = edges if rng.random() < 0.5 else edges.tolist()
        t.count('nonuniform_lists')
        try:
            o = construct(arg, how)
            t.check(False, 'non_uniform_edges_accepted', dict(kind=kind, how=['init', 'assignment', 'MIAReverse'][how], edges=edges.tolist()[:8], widths=np.diff(edges).tolist()[:8]))
        except (ValueError, TypeError):
            t.check(True, '')
    # edges that are not finite numbers: not equally spaced by any reading, and the bin index of a sample is then undefined
    inf, nan = float('inf'), float('nan')
    for bad in ([0, 1, inf], [-inf, 0, 1], [-inf, 0, inf], [0, 1, 2, inf], [nan, 0, 1], [0, 1, nan], [0, nan, 2], [-inf, inf]):
        how = int(rng.integers(3))
        form = int(rng.integers(3))
        arg = bad if form == 0 else np.array(bad, dtype=['float64', 'float32'][form - 1])
        t.count('nonuniform_lists')
        t.count('non_finite_edge_lists')
        try:
            construct(arg, how)
            t.check(False, 'non_uniform_edges_accepted', dict(kind='not finite', how=['init', 'assignment', 'MIAReverse'][how], edges=[str(v) for v in bad], given_as=['list', 'float64 array', 'float32 array'][form]))
        except (ValueError, TypeError):
            t.check(True, '')
    # one edge array object configured, refilled in place by its owner, and configured again: judged on its content each time
    for _ in range(3):
        buf = np.linspace(0.0, 8.0, 9)
        how = int(rng.integers(2))
        try:
            o = construct(buf, how)
        except (ValueError, TypeError) as e:
            t.check(False, 'uniform_edges_refused', dict(kind='reused buffer, first content', error=str(e)))
            continue
        kind, edges = _nonuniform(rng)
        buf2 = buf if len(edges) == len(buf) else None
        if buf2 is None:
            buf = np.linspace(0.0, float(len(edges) - 1), len(edges))
            o = construct(buf, how)
        buf[...] = edges
        t.count('nonuniform_lists')
        t.count('edge_buffers_refilled_in_place')
        try:
            if how == 1 and rng.random() < 0.5:
                o.bin_edges = buf                      # the same object assigned to the same distinguisher again
            else:
                construct(buf, how)
            t.check(False, 'non_uniform_edges_accepted', dict(kind=kind + ' (same array object as an earlier valid configuration)', edges=edges.tolist()[:8]))
        except (ValueError, TypeError):
            t.check(True, '')
    # decreasing / repeated edges
    for bad in ([0, 1, 1, 2], [0, 2, 1, 3], [3, 2, 1], [0.0, 1.0, 0.5], range(8, -1, -2), range(127, -129, -1), range(3, 0, -1), range(int(rng.integers(5, 50)), -3, -int(rng.integers(1, 4)))):
        t.count('nonuniform_lists')
        try:
            construct(bad, int(rng.integers(3)))
            t.check(False, 'non_increasing_edges_accepted', dict(edges=repr(bad)))
        except (ValueError, TypeError):
            t.check(True, '')
    # the same, handed over as numpy arrays of narrow integer / float dtypes (differences of unsigned or 8-bit edges wrap around):
    # decreasing equally spaced, saw-tooth with a constant step modulo 2^k - all must be refused
    for dt, bad in (('uint8', [200, 150, 100, 50]), ('uint16', [3000, 2000, 1000, 0]), ('uint8', [0, 100, 200, 44, 144]), ('int8', [-100, 20, -116, 4]),
                    ('int16', [30000, 10000, -10000, -30000]), ('float32', [3.0, 2.0, 1.0]), ('uint8', [10, 10, 10]), ('int64', [5, 4, 3, 2])):
        t.count('nonuniform_lists')
        try:
            construct(np.array(bad, dtype=dt), int(rng.integers(3)))
            t.check(False, 'non_increasing_edges_accepted', dict(edges=bad, dtype=dt))
        except (ValueError, TypeError):
            t.check(True, '')
    # ... and increasing equally spaced ones in those dtypes must be accepted (the step itself may exceed the positive range of the dtype)
    for dt, good in (('int8', [-100, 100]), ('int8', [-128, 0, 127 + 1 - 1 - 127 + 127][0:2] + [127]) if False else ('int8', [-100, 0, 100]), ('uint8', [0, 85, 170, 255]),
                     ('int16', [-30000, 0, 30000]), ('uint16', [0, 30000, 60000]), ('float32', [0.0, 0.5, 1.0, 1.5])):
        t.count('uniform_lists')
        try:
            o = construct(np.array(good, dtype=dt), int(rng.integers(3)))
            t.check(np.array_equal(np.asarray(o.bin_edges, dtype=float), np.array(good, dtype=float)), 'held_edges_differ_from_configured', lambda: dict(configured=good, dtype=dt))
        except (ValueError, TypeError) as e:
            t.check(False, 'uniform_edges_refused', dict(kind='narrow dtype array', edges=good, dtype=dt, error=str(e)))
    # equally spaced edges far from zero and single-precision edge arrays are legitimate (rounded to their own type)
    far_ok = [('far linspace', np.linspace(1e9, 1e9 + 128, 129)), ('far rounded', np.linspace(1e6, 1e6 + 1, 11)), ('float32 linspace', np.linspace(0, 1, 129).astype('float32')),
              ('float32 offset', np.linspace(100, 101, 11, dtype='float32')), ('far negative', np.linspace(-4e9 - 64, -4e9, 65)), ('narrow', 1024.0 + 2.0 ** -20 * np.arange(17)),
              ('float32 arange', (np.arange(41, dtype='float32') * np.float32(0.1))), ('decimal list', [round(0.1 * i, 10) for i in range(30)])]
    for kind, edges in far_ok:
        how = int(rng.integers(3))
        t.count('uniform_lists')
        try:
            construct(edges, how)
            t.check(True, '')
        except (ValueError, TypeError) as e:
            t.check(False, 'uniform_edges_refused', dict(kind=kind, edges=[float(v) for v in list(edges)[:6]], n=len(edges), error=str(e)))
    for _ in range(40):
        kind, edges = _uniform(rng)
        how = int(rng.integers(3))
        t.count('uniform_lists')
        try:
            o = construct(edges, how)
            held = np.asarray(o.bin_edges, dtype=float)
            t.check(np.array_equal(held, np.asarray(list(edges), dtype=float)) and o.bins_number == len(held) - 1, 'held_edges_differ_from_configured',
                    lambda: dict(kind=kind, configured=list(edges)[:5], held=held.tolist()[:5]))
        except (ValueError, TypeError) as e:
            t.check(False, 'uniform_edges_refused', dict(kind=kind, edges=[float(v) for v in list(edges)[:8]], n=len(edges), error=str(e)))
    return t.result(sig=f"val|{case['sub']}", sample=dict(case=case, lists=t.counters.get('nonuniform_lists', 0) + t.counters.get('uniform_lists', 0)))


def _sanitizer(t, case, rng):
    """The MIA kernel's python source on tracked arrays: an out-of-range bin or class index raises IndexError."""
    from scared.distinguishers import mia
    style = ['dyadic', 'inexact', 'integer'][int(rng.integers(3))]
    tdtype = ['float32', 'float64', 'int16'][int(rng.integers(3))]
    edges = _edges(rng, style, tdtype)
    if len(edges) > 60:
        edges = edges[:17]
    n, T, W, K = int(rng.integers(3, 40)), int(rng.integers(1, 4)), int(rng.integers(1, 3)), int(rng.integers(1, 4))
    x, n_edge, n_ulp = _hostile_samples(rng, edges, tdtype, n, T)
    # samples one ulp below the last edge in the *last* column: the overflow that leaves the accumulator
    if np.dtype(tdtype).kind == 'f':
        x[-1, -1] = np.nextafter(np.dtype(tdtype).type(edges[-1]), np.dtype(tdtype).type(-np.inf))
    data = rng.integers(-1, K, (n, W)).astype('int32')
    mon = KernelMonitor()
    fn = interpreted(mia.MIADistinguisherMixin._accumulate_core, mon)
    acc = np.zeros((T, len(edges) - 1, K, W), dtype='uint32')
    info = dict(case=case, nbins=len(edges) - 1, n=n, T=T, W=W, K=K, tdtype=tdtype, edges=edges.tolist()[:6])
    try:
        fn(x, data, edges, Tracked(acc, mon, 'acc'))
    except IndexError as e:
        t.check(False, 'bin_or_class_index_out_of_bounds', dict(info, error=str(e)))
        return t.result(sig=core.digest(case), sample=info)
    t.count('sanitizer_runs')
    t.count('ulp_samples', n_ulp)
    t.count('edge_samples', n_edge)
    ww, rw = mon.conflicts()
    t.check(not ww and not rw, 'prange_conflict', lambda: dict(info, ww=ww[:3], rw=rw[:3]))
    t.check(mon.negative_index_writes == 0, 'negative_index_write', lambda: dict(info, count=mon.negative_index_writes))
    acc_j = np.zeros_like(acc)
    mia.MIADistinguisherMixin._accumulate_core(x, data, edges, acc_j)
    t.check(np.array_equal(acc, acc_j), 'jit_differs_from_interpreter', lambda: dict(info, diff=tol.first_diff(acc, acc_j)))
    # conservation: every in-range sample of a declared row counted once
    _, bins = oracles.mutual_information(x, np.zeros((n, 1), dtype=int), [0], edges)
    exp_total = sum(int((bins[i] >= 0).sum()) for i in range(n) for w in range(W) if data[i, w] >= 0)
    t.check(int(acc.sum()) == exp_total, 'count_conservation', lambda: dict(info, counted=int(acc.sum()), expected=exp_total))
    return t.result(sig=f"san|{style}|{tdtype}|{len(edges)}|{n}x{T}x{W}", sample=dict(info, write_events=mon.write_events))
