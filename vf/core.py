"""Runner, worker protocol, verdicts, evidence and known-findings handling.

A property module (vf/props/cNN.py) provides
    ID, LEVEL, RULE, ASSUMPTIONS, WORKERS, BUDGET_S, REQUIRED_COUNTERS
    cases(tier, seed) -> ordered list of JSON case specs (deciding / enumerated cases first)
    setup()           -> optional, run once per worker (oracle self-tests; raise Inconclusive on failure)
    run_case(case)    -> result dict, see `held`, `violated`, `inconclusive`
Every case is executed in a worker *sub-process* (crash isolation + watchdog); a worker that dies on a case
is a violation witnessed by that case (the API did not return), a worker that exceeds the watchdog is
inconclusive.  Verdicts are three-valued and never folded.
"""
import hashlib
import importlib
import json
import os
import signal
import subprocess
import sys
import tempfile
import time
import traceback

from . import VERIF_DIR, REPO_DIR

EXIT_HELD, EXIT_VIOLATION, EXIT_INCONCLUSIVE = 0, 1, 3


class Inconclusive(Exception):
    """The machinery could not decide (self-test failed, monitor not reached...). Never a violation."""


class Violation(Exception):
    """Raised by a monitor placed deep inside a harness helper (e.g. the input-digest monitor around update()): the case is violated."""

    def __init__(self, mechanism, detail=None):
        super().__init__(mechanism)
        self.mechanism = mechanism
        self.detail = detail


def canon(obj):
    return json.dumps(obj, sort_keys=True, default=_json_default, separators=(',', ':'))


def _json_default(o):
    import numpy as np
    if isinstance(o, np.ndarray):
        return o.tolist()
    if isinstance(o, (np.integer,)):
        return int(o)
    if isinstance(o, (np.floating,)):
        return float(o)
    if isinstance(o, (np.bool_,)):
        return bool(o)
    if isinstance(o, (set, frozenset, tuple)):
        return list(o)
    if isinstance(o, bytes):
        return o.hex()
    return repr(o)


def digest(obj):
    return hashlib.sha1(canon(obj).encode()).hexdigest()[:16]


def subseed(*parts):
    """Deterministic 63-bit seed from arbitrary parts (no dependence on hash randomisation)."""
    return int(hashlib.sha256(canon(parts).encode()).hexdigest()[:15], 16)


# ---------------------------------------------------------------------------------------------------------
# results

def held(checks=1, nontrivial=True, sig=None, counters=None, sample=None, notes=None):
    return dict(status='held', checks=int(checks), nontrivial=bool(nontrivial), sig=sig, counters=counters or {},
                sample=sample, notes=notes)


def violated(mechanism, detail, checks=1, sig=None, counters=None, sample=None):
    return dict(status='violated', mechanism=mechanism, detail=detail, checks=int(checks), nontrivial=True, sig=sig,
                counters=counters or {}, sample=sample)


def inconclusive(reason, counters=None):
    return dict(status='inconclusive', reason=reason, checks=0, nontrivial=False, sig=None, counters=counters or {})


class Tally:
    """Helper used inside run_case: counts oracle comparisons and monitor events, keeps the first violation."""

    def __init__(self):
        self.checks = 0
        self.counters = {}
        self.violation = None   # (mechanism, detail)
        self.metrics = {}       # name -> max value observed (e.g. observed difference / tolerance)
        self.all_violations = []
        self.notes = []

    def count(self, name, k=1):
        self.counters[name] = self.counters.get(name, 0) + int(k)

    def metric(self, name, value):
        try:
            v = float(value)
        except (TypeError, ValueError):
            return
        if v == v and v > self.metrics.get(name, float('-inf')):
            self.metrics[name] = v

    def check(self, ok, mechanism, detail=None):
        """Record one oracle comparison. `detail` may be a callable producing the witness lazily."""
        self.checks += 1
        if not ok:
            d = detail() if callable(detail) else detail
            self.all_violations.append((mechanism, d))
            if self.violation is None:
                self.violation = (mechanism, d)
        return ok

    def result(self, nontrivial=True, sig=None, sample=None):
        if self.all_violations:
            # one result per distinct mechanism so that a known finding never hides another violation
            seen, extra = set(), []
            for m, d in self.all_violations:
                if m not in seen:
                    seen.add(m)
                    extra.append(dict(mechanism=m, detail=d))
            r = violated(extra[0]['mechanism'], extra[0]['detail'], self.checks, sig, self.counters, sample)
            r['more'] = extra[1:]
            r['metrics'] = self.metrics
            return r
        r = held(self.checks, nontrivial, sig, self.counters, sample, self.notes or None)
        r['metrics'] = self.metrics
        if self.checks == 0:
            r['status'] = 'inconclusive'
            r['reason'] = 'no oracle comparison was reached'
        return r


# ---------------------------------------------------------------------------------------------------------
# worker side

def worker_main(prop, cases_path, out_path, deadline):
    # this file runs as __main__ in the worker while the property modules import it as vf.core: catch the exception classes of both
    import vf.core as _pkg
    Inconclusive_, Violation_ = (Inconclusive, _pkg.Inconclusive), (Violation, _pkg.Violation)
    mod = importlib.import_module(f'vf.props.{prop.lower()}')
    out = open(out_path, 'a')

    def emit(o):
        out.write(canon(o) + '\n')
        out.flush()
        os.fsync(out.fileno())

    import faulthandler
    faulthandler.enable()
    try:
        import scared
        root = os.path.realpath(os.path.dirname(os.path.dirname(scared.__file__)))
        if root != os.path.realpath(REPO_DIR):
            emit(dict(setup='inconclusive', reason=f'scared imported from {root}, expected {REPO_DIR}'))
            return
        if hasattr(mod, 'setup'):
            mod.setup()
        emit(dict(setup='ok'))
    except Inconclusive_ as e:
        emit(dict(setup='inconclusive', reason=str(e)))
        return
    except Exception:
        emit(dict(setup='inconclusive', reason='setup raised: ' + traceback.format_exc()[-1500:]))
        return
    with open(cases_path) as f:
        todo = [json.loads(line) for line in f]
    for item in todo:
        i, case = item['i'], item['case']
        if time.time() > deadline and not case.get('must'):
            emit(dict(i=i, skipped=True))
            continue
        emit(dict(i=i, begin=True))
        t0 = time.time()
        try:
            res = mod.run_case(case)
        except Inconclusive_ as e:
            res = inconclusive(str(e))
        except Violation_ as v:
            res = violated(v.mechanism, v.detail)
        except Exception as e:
            # An exception that travelled through the subject's code on an input the harness considers valid is
            # an observed failure of the API (violation); one raised by the harness alone is a machinery error.
            frames = traceback.extract_tb(e.__traceback__)
            inside = [f for f in frames if os.path.realpath(f.filename).startswith(os.path.realpath(REPO_DIR) + os.sep)]
            if inside:
                f = inside[-1]
                res = violated(f'subject_raised:{type(e).__name__}@{os.path.basename(f.filename)}:{f.name}',
                               dict(exception=repr(e)[:300], traceback=traceback.format_exc()[-1500:]))
            else:
                res = inconclusive('harness exception: ' + traceback.format_exc()[-2000:])
        res['i'] = i
        res['t'] = round(time.time() - t0, 3)
        emit(res)
    emit(dict(done=True))


# ---------------------------------------------------------------------------------------------------------
# runner side

def _load_known():
    path = os.path.join(VERIF_DIR, 'known_findings.json')
    try:
        return json.load(open(path))['findings']
    except FileNotFoundError:
        return []


def _env(mod=None):
    env = dict(os.environ)
    env['PYTHONPATH'] = f'{REPO_DIR}:{VERIF_DIR}'
    env['SCARED_VERIF'] = '1'
    env['PYTHONHASHSEED'] = '0'
    # many workers run side by side: keep the per-process thread pools small unless the property sweeps them
    env['NUMBA_NUM_THREADS'] = str(getattr(mod, 'NUMBA_THREADS', 4))
    for v in ('OPENBLAS_NUM_THREADS', 'MKL_NUM_THREADS', 'OMP_NUM_THREADS'):
        env[v] = str(getattr(mod, 'BLAS_THREADS', 2))
    env['PYTHONWARNINGS'] = 'ignore'
    return env


def _run_workers(prop, indexed, nworkers, budget_s, watchdog_s, tmpdir):
    """Run the cases over worker subprocesses. Returns (results by index, crashes, notes)."""
    results, crashes, notes = {}, [], []
    pending = list(indexed)
    deadline = time.time() + budget_s
    hard = time.time() + watchdog_s
    generation = 0
    while pending:
        generation += 1
        chunks = [pending[w::nworkers] for w in range(nworkers)]
        chunks = [c for c in chunks if c]
        procs = []
        for w, chunk in enumerate(chunks):
            cpath = os.path.join(tmpdir, f'cases_{generation}_{w}.jsonl')
            opath = os.path.join(tmpdir, f'out_{generation}_{w}.jsonl')
            with open(cpath, 'w') as f:
                for i, case in chunk:
                    f.write(canon(dict(i=i, case=case)) + '\n')
            open(opath, 'w').close()
            err = open(os.path.join(tmpdir, f'err_{generation}_{w}.txt'), 'w')
            p = subprocess.Popen([sys.executable, '-m', 'vf.core', '--worker', prop, cpath, opath, repr(deadline)],
                                 cwd=VERIF_DIR, env=_env(importlib.import_module(f'vf.props.{prop.lower()}')), stdout=err, stderr=err, start_new_session=True)
            procs.append((p, chunk, opath, err))
        pending = []
        for p, chunk, opath, err in procs:
            timed_out = False
            try:
                p.wait(timeout=max(1, hard - time.time()))
            except subprocess.TimeoutExpired:
                timed_out = True
                try:
                    os.killpg(p.pid, signal.SIGKILL)
                except ProcessLookupError:
                    pass
                p.wait()
            err.close()
            begun, got, setup_state, done = None, set(), None, False
            for line in open(opath):
                try:
                    o = json.loads(line)
                except ValueError:
                    continue
                if 'setup' in o:
                    setup_state = o
                elif o.get('done'):
                    done = True
                elif o.get('begin'):
                    begun = o['i']
                elif o.get('skipped'):
                    got.add(o['i'])
                    results[o['i']] = dict(status='skipped_budget', checks=0, nontrivial=False, counters={})
                else:
                    got.add(o['i'])
                    results[o['i']] = o
                    begun = None
            errtxt = open(err.name).read()[-20000:]
            if setup_state is None or setup_state.get('setup') != 'ok':
                reason = (setup_state or {}).get('reason') or f'worker died during setup (rc={p.returncode}): {errtxt}'
                for i, _ in chunk:
                    results[i] = inconclusive('setup: ' + reason)
                notes.append('setup failure: ' + reason[:400])
                continue
            if done:
                continue
            rest = [(i, c) for i, c in chunk if i not in got and i != begun]
            if timed_out:
                notes.append(f'watchdog fired after {watchdog_s}s')
                if begun is not None:
                    results[begun] = inconclusive('watchdog fired while this case was running')
                for i, _ in rest:
                    results[i] = inconclusive('watchdog fired before this case was started')
                continue
            # the worker died (signal / abort / os._exit) while running case `begun`
            if begun is not None:
                crashes.append((begun, p.returncode, errtxt))
            else:
                notes.append(f'worker exited rc={p.returncode} between cases: {errtxt[-400:]}')
            if time.time() < hard:
                pending.extend(rest)
            else:
                for i, _ in rest:
                    results[i] = inconclusive('watchdog fired before this case was started')
    return results, crashes, notes


def run_property(prop, tier, replay=None):
    t_start = time.time()
    mod = importlib.import_module(f'vf.props.{prop.lower()}')
    seed = int(os.environ.get('VERIF_SEED', '0'))
    evidence_path = os.path.join(VERIF_DIR, 'evidence', f'{prop}.json')
    if os.path.realpath(REPO_DIR) != '/repo':
        # break-tests against a scratch copy of the repository never overwrite the evidence of /repo itself
        evidence_path = os.path.join(VERIF_DIR, '.scratch', 'evidence-other-tree', f'{prop}.json')
    os.makedirs(os.path.dirname(evidence_path), exist_ok=True)
    if os.path.exists(evidence_path) and not replay:
        os.remove(evidence_path)

    if replay:
        spec = json.load(open(replay))
        cases = [spec['case'] if 'case' in spec else spec]
        nworkers, budget = 1, 10 ** 6
    else:
        cases = mod.cases(tier, seed)
        nworkers = mod.WORKERS.get(tier, 1)
        budget = mod.BUDGET_S[tier]
        scale = float(os.environ.get('VERIF_BUDGET_SCALE', '1'))
        budget *= scale
    watchdog = budget * 3 + 600
    indexed = list(enumerate(cases))
    with tempfile.TemporaryDirectory(prefix=f'vf-{prop}-', dir=os.environ.get('VERIF_TMP') or None) as tmpdir:
        results, crashes, notes = _run_workers(prop, indexed, min(nworkers, max(1, len(cases))), budget, watchdog, tmpdir)

    known = [k for k in _load_known() if k['property'] == prop]
    known_keys = {k['key']: k for k in known if k['status'] == 'known'}

    for i, rc, errtxt in crashes:
        sig = -rc if rc and rc < 0 else rc
        head = errtxt[errtxt.find('Fatal Python error'):][:1200] if 'Fatal Python error' in errtxt else errtxt[-1200:]
        results[i] = violated(f'crash:rc={sig}', dict(returncode=rc, stderr=head))

    agg = dict(held=0, violated=0, inconclusive=0, skipped_budget=0, known=0)
    counters, checks, metrics = {}, 0, {}
    sigs, samples, viol_lines, known_lines, inconc_reasons = set(), [], [], {}, []
    unlisted = 0
    for i, case in indexed:
        r = results.get(i) or inconclusive('no result recorded')
        st = r['status']
        for k, v in (r.get('counters') or {}).items():
            counters[k] = counters.get(k, 0) + v
        checks += r.get('checks', 0)
        for k, v in (r.get('metrics') or {}).items():
            if v is not None and v > metrics.get(k, float('-inf')):
                metrics[k] = v
        if st == 'violated':
            all_v = [dict(mechanism=r['mechanism'], detail=r.get('detail'))] + list(r.get('more') or [])
            new = [v for v in all_v if v['mechanism'] not in known_keys]
            for v in all_v:
                if v['mechanism'] in known_keys:
                    known_lines.setdefault(v['mechanism'], 0)
                    known_lines[v['mechanism']] += 1
            if new:
                agg['violated'] += 1
                unlisted += 1
                seen_mech = {m for _, m, _ in viol_lines}
                if len(viol_lines) < 3 or (new[0]['mechanism'] not in seen_mech and len(viol_lines) < 12):
                    path = os.path.join(VERIF_DIR, 'replays', prop, digest(case) + '.json')
                    os.makedirs(os.path.dirname(path), exist_ok=True)
                    with open(path, 'w') as f:
                        json.dump(dict(property=prop, case=case, violations=new, tier=tier, seed=seed), f, indent=1,
                                  default=_json_default)
                    viol_lines.append((path, new[0]['mechanism'], new[0]['detail']))
            else:
                agg['known'] += 1
        elif st == 'held':
            agg['held'] += 1
            if r.get('nontrivial'):
                sigs.add(r.get('sig') or digest(case))
            if r.get('sample') is not None and len(samples) < 6:
                samples.append(r['sample'])
            elif len(samples) < 3:
                samples.append(dict(case=case, checks=r.get('checks')))
        elif st == 'skipped_budget':
            agg['skipped_budget'] += 1
        else:
            agg['inconclusive'] += 1
            if len(inconc_reasons) < 5:
                inconc_reasons.append(str(r.get('reason'))[:600])

    executed = agg['held'] + agg['violated'] + agg['known'] + agg['inconclusive']
    missing = [c for c in getattr(mod, 'REQUIRED_COUNTERS', []) if counters.get(c, 0) == 0]
    verdict = 'held'
    reasons = []
    if unlisted:
        verdict = 'violated'
    elif agg['held'] == 0:
        verdict = 'inconclusive'
        reasons.append('no case was decided')
    elif missing and not replay:
        verdict = 'inconclusive'
        reasons.append(f'deciding monitors never reached: {missing}')
    elif agg['inconclusive'] > max(0, int(getattr(mod, 'MAX_INCONCLUSIVE_FRACTION', 0.0) * executed)) and not replay:
        verdict = 'inconclusive'
        reasons.append(f"{agg['inconclusive']} case(s) inconclusive: {inconc_reasons[:2]}")
    if hasattr(mod, 'final_verdict') and verdict == 'held' and not replay:
        extra = mod.final_verdict(counters, agg)
        if extra:
            verdict = 'inconclusive'
            reasons.append(extra)

    wall = time.time() - t_start
    coverage = dict(
        evaluations=executed,
        distinct_nontrivial=len(sigs),
        rule=mod.RULE,
        samples=samples[:6] or [dict(note='no held case to sample')],
        oracle_comparisons=checks,
        monitor_counters=counters,
        max_metrics=metrics,
        case_verdicts=agg,
        cases_generated=len(cases),
        verdict=verdict,
        inconclusive_reasons=inconc_reasons,
        known_findings_seen=known_lines,
        notes=notes[:10],
        workers=nworkers,
        budget_s=budget,
    )
    if getattr(mod, 'exhaustive_note', None):
        coverage['exhaustive_subspaces'] = mod.exhaustive_note(tier)
    evidence = dict(property_id=prop, tier=tier if tier in ('quick', 'thorough') else 'quick', seed=seed, level=mod.LEVEL,
                    coverage=coverage, assumptions=list(mod.ASSUMPTIONS), wall_s=round(wall, 2), violations=unlisted)
    if not replay:
        _write_evidence(evidence_path, evidence)

    for k, n in known_lines.items():
        print(f"KNOWN-FINDING: property={prop} {known_keys[k]['what']} [key={k}; seen in {n} case(s) of this run]")
    print(f'{prop} {tier}: verdict={verdict} cases={executed}/{len(cases)} held={agg["held"]} known={agg["known"]} '
          f'violated={agg["violated"]} inconclusive={agg["inconclusive"]} skipped_by_budget={agg["skipped_budget"]} '
          f'distinct_nontrivial={len(sigs)} oracle_comparisons={checks} wall={wall:.1f}s')
    print('monitor counters: ' + canon(counters))
    if metrics:
        print('max metrics: ' + canon({k: round(v, 6) for k, v in metrics.items()}))
    for n in notes[:5]:
        print('note: ' + n)
    if verdict == 'violated':
        for path, mech, detail in viol_lines:
            print(f'VIOLATION property={prop} replay={path}')
            print(f'  mechanism={mech} detail={canon(detail)[:400]}')
        return EXIT_VIOLATION
    if verdict == 'inconclusive':
        print(f'INCONCLUSIVE property={prop}: ' + '; '.join(reasons))
        return EXIT_INCONCLUSIVE
    return EXIT_HELD


def _write_evidence(path, evidence):
    text = json.dumps(evidence, indent=1, default=_json_default)
    evidence = json.loads(text)
    try:
        import jsonschema
        schema = json.load(open('/root/.vp/EVIDENCE.schema.json'))
        jsonschema.validate(evidence, schema)
    except ImportError:
        pass
    except FileNotFoundError:
        pass
    except Exception as e:  # schema violation: keep the file but say so loudly (the check itself is then suspect)
        print(f'WARNING: evidence does not validate: {str(e)[:300]}')
    with open(path, 'w') as f:
        f.write(text)


if __name__ == '__main__':
    if sys.argv[1] == '--worker':
        worker_main(sys.argv[2], sys.argv[3], sys.argv[4], float(sys.argv[5]))
        sys.exit(0)
    prop = sys.argv[1].upper()
    tier = (sys.argv[2] if len(sys.argv) > 2 and not sys.argv[2].startswith('--') else os.environ.get('VERIF_TIER', 'quick'))
    replay = None
    if '--replay' in sys.argv:
        replay = sys.argv[sys.argv.index('--replay') + 1]
    sys.exit(run_property(prop, tier, replay))
