"""Uniform drivers over the eleven incremental 'distinguisher' subjects of scared.

A subject spec is a JSON dict: {name, precision, + parameters}.  `make(spec)` returns a fresh real object of
the repository; `results(obj)` returns the list of arrays a user can observe after compute().
"""
import numpy as np

SUBJECTS = ['cpa', 'cpa_alt', 'dpa', 'anova', 'nicv', 'snr', 'mia', 'tbuild', 'tstatic', 'tdpa', 'ttacc']
PARTITIONED = ['anova', 'nicv', 'snr', 'mia', 'tbuild']
DATA_DTYPES_LUT = ['uint8', 'uint16', 'uint32', 'int8', 'int16', 'int32']


def _ths(samples, **meta):
    import scared
    return scared.traces.read_ths_from_ram(samples=samples, **meta)


_TB = None


def _tbuild_class():
    """Direct use of the template-build mixin as a standalone distinguisher."""
    global _TB
    if _TB is None:
        from scared import distinguishers as d

        class TemplateBuildDistinguisher(d.PartitionedDistinguisherBase, d._TemplateBuildDistinguisherMixin):
            pass
        _TB = TemplateBuildDistinguisher
    return _TB


def _make(spec):
    """Fresh real object for the spec."""
    import scared
    name, prec = spec['name'], spec.get('precision', 'float32')
    parts = spec.get('partitions')
    if parts is not None and spec.get('partitions_as'):
        # class lists are also given as numpy arrays (any integer dtype, any order) or ranges
        dt = np.dtype(spec['partitions_as'])
        if min(parts) < np.iinfo(dt).min or max(parts) > np.iinfo(dt).max:
            dt = np.dtype('int64')
        parts = np.array(parts, dtype=dt)
    if name == 'cpa':
        return scared.CPADistinguisher(precision=prec)
    if name == 'cpa_alt':
        return scared.CPAAlternativeDistinguisher(precision=prec)
    if name == 'dpa':
        return scared.DPADistinguisher(precision=prec)
    if name in ('anova', 'nicv', 'snr'):
        klass = dict(anova=scared.ANOVADistinguisher, nicv=scared.NICVDistinguisher, snr=scared.SNRDistinguisher)[name]
        return klass(partitions=parts, precision=prec)
    if name == 'mia':
        kw = {}
        if spec.get('bin_edges') is not None:
            kw['bin_edges'] = np.array(spec['bin_edges'], dtype='float64') if spec.get('edges_as', 'array') == 'array' else list(spec['bin_edges'])
        if spec.get('bins_number') is not None:
            kw['bins_number'] = spec['bins_number']
        if spec.get('mia_precision'):
            kw['precision'] = spec['mia_precision']
        return scared.MIADistinguisher(partitions=parts, **kw)
    if name == 'tbuild':
        return _tbuild_class()(partitions=parts, precision=prec)
    if name in ('tstatic', 'tdpa'):
        return make_template_attack(spec)
    if name == 'ttacc':
        return scared.TTestThreadAccumulator(precision=np.dtype(prec))
    raise ValueError(name)


def make(spec):
    """Fresh real object for the spec, its update() wrapped by the input monitor: the arrays handed over by the caller must be bit-for-bit
    what they were when update() returns or raises (a distinguisher works on the caller's data, it does not own it)."""
    obj = _make(spec)
    if spec['name'] in ('tstatic', 'tdpa'):
        return obj
    inner = obj.update

    def update(traces, data=None, **kw):
        if 'traces' in kw:
            traces = kw.pop('traces')
        if 'data' in kw:
            data = kw.pop('data')
        before = tuple(hash(a.tobytes()) if isinstance(a, np.ndarray) and a.nbytes <= 4_000_000 else None for a in (traces, data))
        try:
            return inner(traces) if spec['name'] == 'ttacc' else inner(traces, data)
        finally:
            after = tuple(hash(a.tobytes()) if isinstance(a, np.ndarray) and a.nbytes <= 4_000_000 else None for a in (traces, data))
            if before != after:
                from . import core
                raise core.Violation('input_modified_by_update', dict(subject=spec['name'], which=['traces', 'data'][0 if before[0] != after[0] else 1],
                                                                      dtype=str(getattr(traces, 'dtype', None)), shape=list(getattr(traces, 'shape', []))))
    try:
        obj.update = update
    except Exception:
        pass
    return obj


def make_template_attack(spec, convergence_step=None):
    """A *built* TemplateAttack / TemplateDPAAttack (through the public build() flow).

    spec['build'] = dict(samples=[[...]], values=[...]) - building traces and their class values.
    """
    import scared
    b = spec['build']
    samples = np.array(b['samples'], dtype=b.get('dtype', 'float64'))
    values = np.array(b['values'], dtype=b.get('vdtype', 'uint8')).reshape(-1, 1)
    ths = _ths(samples, v=values)

    @scared.reverse_selection_function
    def rsf(v):
        return v

    cont = scared.Container(ths)
    parts = spec.get('partitions')
    if spec['name'] == 'tstatic':
        att = scared.TemplateAttack(container_building=cont, reverse_selection_function=rsf, model=scared.Value(), partitions=parts,
                                    precision=spec.get('precision', 'float32'), convergence_step=convergence_step)
    else:
        guesses = spec.get('guesses', 4)

        @scared.attack_selection_function(guesses=range(guesses), words=0)
        def asf(h, guesses):
            # the hypothesis table is carried by the metadata itself: h has shape (n, guesses)
            return h[:, :, None]

        att = scared.TemplateDPAAttack(container_building=cont, reverse_selection_function=rsf, selection_function=asf, model=scared.Value(),
                                       partitions=parts, precision=spec.get('precision', 'float32'), convergence_step=convergence_step)
    bs = b.get('batch_size')
    if bs:
        scared.set_batch_size(int(bs))
    try:
        att.build()
    finally:
        scared.set_batch_size(None)
    return att


def update(obj, spec, traces, data):
    if spec['name'] == 'ttacc':
        return obj.update(traces)
    return obj.update(traces, data)


def results(obj, spec, raw=False):
    """Observable results after compute(), as a list of (label, array): private copies, or with raw=True the very objects handed out."""
    name = spec['name']
    if name == 'ttacc':
        obj.compute()
        return [('mean', np.array(obj.mean)), ('var', np.array(obj.var))]
    r = obj.compute()
    out = [('compute', r if raw and isinstance(r, np.ndarray) else np.array(r))]
    if name == 'tbuild':
        out.append(('pooled_covariance', np.array(obj.pooled_covariance)))
        out.append(('pooled_covariance_inv', np.array(obj.pooled_covariance_inv)))
    return out


def accumulators(obj, spec):
    """Internal sufficient statistics (used for diagnostics and exactness self-checks, not as the verdict)."""
    names = dict(cpa=['ex', 'ex2', 'ey', 'ey2', 'exy'], cpa_alt=['ex', 'ex2', 'ey', 'ey2', 'exy'],
                 dpa=['accumulator_traces', 'accumulator_ones', 'processed_ones'],
                 anova=['sum', 'sum_square', 'counters'], nicv=['sum', 'sum_square', 'counters'], snr=['sum', 'sum_square', 'counters'],
                 mia=['accumulators'], tbuild=['_exi', '_exxi', '_counters'], tstatic=['_scores'], tdpa=['_scores'],
                 ttacc=['sum', 'sum_squared'])[spec['name']]
    return [(n, np.array(getattr(obj, n))) for n in names if hasattr(obj, n)]
