"""Numerical comparison policy of DESIGN.md section 4."""
import numpy as np

from . import oracles

C_E = 64       # exact regime: O(1) roundings of compute() on exact accumulators
C_R = 16       # rounding regime: recursive summation of n terms
UNDECIDABLE_E = 1e-3
UNDECIDABLE_R = 1e-2


def eps_of(precision):
    return float(np.finfo(np.dtype(precision)).eps)


def same(a, b):
    """Bit-level equality of two results (NaN == NaN), shapes and values."""
    a, b = np.asarray(a), np.asarray(b)
    return a.shape == b.shape and bool(np.array_equal(a, b, equal_nan=True))


def first_diff(a, b):
    a, b = np.asarray(a), np.asarray(b)
    if a.shape != b.shape:
        return dict(shape_a=a.shape, shape_b=b.shape)
    with np.errstate(all='ignore'):
        bad = ~((a == b) | (np.isnan(a.astype(float)) & np.isnan(b.astype(float))))
    idx = np.argwhere(bad)
    if len(idx) == 0:
        return None
    i = tuple(idx[0])
    return dict(index=[int(v) for v in i], a=float(a[i]), b=float(b[i]), n_diff=int(bad.sum()), size=int(a.size))


def compare_tol(t, a, b, tol, mechanism, detail, metric=None, undecidable_above=UNDECIDABLE_R, natural=1.0):
    """Compare two float results entry-wise within `tol` (array broadcastable to the results).

    Entries whose tolerance is too large to mean anything, or that are NaN on either side outside the exact
    regime, are counted as undecidable and not judged.
    """
    a, b = np.asarray(a, dtype=float), np.asarray(b, dtype=float)
    if a.shape != b.shape:
        t.check(False, mechanism + '_shape', lambda: dict(detail() if callable(detail) else detail or {}, shape_a=a.shape, shape_b=b.shape))
        return
    tol = np.broadcast_to(np.asarray(tol, dtype=float), a.shape)
    with np.errstate(all='ignore'):
        rel = np.maximum(np.abs(a), np.abs(b))
        undec = ~np.isfinite(a) | ~np.isfinite(b) | ~np.isfinite(tol) | (tol > undecidable_above * np.maximum(rel, natural))
        diff = np.abs(a - b)
    decided = ~undec
    t.count('entries_compared', int(decided.sum()))
    t.count('entries_undecidable_by_rounding', int(undec.sum()))
    if not decided.any():
        return
    with np.errstate(all='ignore'):
        ratio = np.where(decided, diff / np.maximum(tol, 1e-300), 0.0)
    if metric:
        t.metric(metric, float(ratio.max()))
    bad = decided & (diff > tol)
    t.check(not bad.any(), mechanism, lambda: dict(detail() if callable(detail) else (detail or {}),
                                                  index=[int(v) for v in np.argwhere(bad)[0]], a=float(a[tuple(np.argwhere(bad)[0])]),
                                                  b=float(b[tuple(np.argwhere(bad)[0])]), tol=float(tol[tuple(np.argwhere(bad)[0])]),
                                                  n_bad=int(bad.sum())))


def result_scale(spec, traces, data):
    """First-order error scale (per unit round-off) of the subject's result, label -> array shaped like compute()."""
    name = spec['name']
    x = np.asarray(traces)
    d = None if data is None else np.asarray(data).reshape(len(data), -1)
    if name in ('cpa', 'cpa_alt'):
        return dict(compute=oracles.cpa(x, d)[1])
    if name == 'dpa':
        return dict(compute=oracles.dpa(x, d)[1])
    if name in ('anova', 'nicv', 'snr'):
        return dict(compute=oracles.partitioned(name, x, d, spec['partitions'])[1])
    if name == 'ttacc':
        xa = np.abs(x.astype(float))
        m = xa.mean(0)
        return dict(mean=m + 1e-300, var=(xa * xa).mean(0) + m * m + 1e-300)
    if name == 'tbuild':
        parts = spec['partitions']
        xa = np.abs(x.astype(float))
        K, T = len(parts), x.shape[1]
        means = np.zeros((K, T))
        cov = np.zeros((T, T))
        for i, c in enumerate(parts):
            m = d[:, 0] == c
            k = int(m.sum())
            if k:
                means[i] = xa[m].mean(0)
                # classes with a single trace go through the same subtraction (their contribution is a rounding residue)
                cov += (xa[m].T @ xa[m] / k + np.outer(means[i], means[i])) * k / (max(k, 2) - 1)
        return dict(compute=means + 1e-300, pooled_covariance=cov / K + 1e-300)
    return {}
