#!/bin/bash
# Offline setup: third-party helpers of the harness (icontract, jsonschema) go to the git-ignored .deps,
# beside the repository's own interpreter (/venv). Nothing is fetched from a network.
set -e
cd "$(dirname "$0")"
if [ ! -d .deps/icontract ] || [ ! -d .deps/jsonschema ]; then
  PIP_NO_INDEX=1 /venv/bin/pip install -q --no-index --find-links /opt/veriftools/wheels --target .deps icontract jsonschema 2>&1 | grep -v -i "conda\|warning" || true
fi
PYTHONPATH=.deps /venv/bin/python -c "import icontract, jsonschema; print('deps ok', icontract.__version__)"
